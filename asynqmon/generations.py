"""Threads that run strictly one after another (each joined before the next starts): the OS hands the
identifier of a finished thread to the next one, yet a new thread is a different thread."""
import threading


def run_generations(n):
    """Every generation leaves an unfinished deduplicated task behind when its thread exits, and before that asks for
    the same key: it must get a task of its own. Returns (violations, stats)."""
    import asynq
    from asynq import asynq as A
    from asynq.batching import DebugBatchItem
    from asynq.tools import DeduplicateDecorator, deduplicate

    execs = []

    @deduplicate()
    @A()
    def fetch(key):
        execs.append((threading.current_thread().name, key))
        yield DebugBatchItem("gen-" + threading.current_thread().name, key)
        return (key, threading.current_thread().name)

    keep = []  # strong references: neither tasks nor Thread objects are recycled
    handed = {}  # id(task) -> generation that was given it first
    idents = []
    viol = []

    def generation(g):
        name = threading.current_thread().name
        idents.append(threading.get_ident())
        asynq.scheduler.reset()
        t = fetch.asynq("left-behind")
        keep.append(t)
        first = handed.setdefault(id(t), g)
        if first != g:
            viol.append(("task-of-a-finished-thread-handed-out", {"generation": g, "task_created_by_generation": first, "task_computed": t.is_computed()}))
            return
        t2 = fetch.asynq("left-behind")
        if t2 is not t:
            viol.append(("in-flight-task-not-shared", {"generation": g, "where": "same thread, same key"}))
        n0 = len(execs)
        try:
            v = fetch.asynq("used").value()
        except BaseException as e:
            viol.append(("generation-crashed", {"generation": g, "exc": repr(e)[:120]}))
            return
        if v != ("used", name) or execs[n0:] != [(name, "used")]:
            viol.append(("deduplicated-call-answered-by-another-thread", {"generation": g, "value": repr(v)[:80], "bodies_run": execs[n0:][:3]}))
        # "left-behind" stays in flight when this thread ends

    for g in range(n):
        th = threading.Thread(target=generation, args=(g,), name="gen%d" % g)
        keep.append(th)
        th.start()
        th.join()
        if viol:
            break
    reused = len(idents) - len(set(idents))
    DeduplicateDecorator.tasks.clear()
    return viol, {"generations": len(idents), "thread_idents_reused": reused}
