"""Harness backend: runs a Tasklang program on the real asynq library and
records, at the client boundary, what the program saw.

Everything here is a user-level subclass of a public asynq base class or a
subscription to a public event; nothing in asynq is patched.
"""

import functools
import itertools
import threading
import types
import zlib

import asynq
from asynq import (
    AsyncContext,
    AsyncScopedValue,
    BatchBase,
    BatchItemBase,
    ConstFuture,
    ErrorFuture,
    Future,
    NonAsyncContext,
    async_override,
    async_proxy,
    asynq as asynq_dec,
    result as asynq_result,
)
from asynq import scheduler as asynq_scheduler
from asynq.batching import DebugBatchItem

from . import lang
from .lang import Frame, HarnessFault, UserBaseErr, UserErr, exc_desc

GLOBAL_SEQ = itertools.count()


# ---------------------------------------------------------------------------
# task functions, one per calling style.  `rt` and `fr` are the arguments.


@asynq_dec()
def t_asynq(rt, fr):
    return (yield from lang.exec_node(rt, fr))


def _partial_body(tag, rt, fr):
    return (yield from lang.exec_node(rt, fr))


# a task function that is not a function object: functools.partial over a generator function ...
t_partial = asynq_dec()(functools.partial(_partial_body, "bound-by-partial"))


class _PlainCallable(object):
    def __call__(self, rt, fr):
        return lang.run_plain(rt, fr)


# ... and an instance with __call__ (plain body)
t_callable = asynq_dec()(_PlainCallable())


@asynq_dec(pure=True)
def t_pure(rt, fr):
    return (yield from lang.exec_node(rt, fr))


@asynq_dec()
def t_plain(rt, fr):
    return lang.run_plain(rt, fr)


@asynq_dec(pure=True)
def t_pureplain(rt, fr):
    return lang.run_plain(rt, fr)


@async_proxy()
def t_proxy(rt, fr):
    return t_asynq.asynq(rt, fr)


async def _explicit_asyncio(rt, fr):
    """A hand-written asyncio twin of t_explicit (what a user passes as asyncio_fn=)."""
    from asynq.asynq_to_async import AsyncioMode, resolve_awaitables

    with AsyncioMode():
        gen = lang.exec_node(rt, fr)
        send, exc = None, None
        while True:
            try:
                req = gen.send(send) if exc is None else gen.throw(exc)
            except StopIteration as s:
                return s.value
            try:
                send = await resolve_awaitables(req)
                exc = None
            except Exception as e:
                exc = e


def _explicit_asyncio_entry(rt, fr):
    """What is passed as asyncio_fn=: a plain function handing back an awaitable - the coroutine itself, or (when the
    run asks for it) an asyncio.Task wrapping it, as ensure_future / gather / run_in_executor based twins do."""
    coro = _explicit_asyncio(rt, fr)
    if getattr(rt, "explicit_returns_task", False):
        import asyncio

        rt.n_explicit_tasks = getattr(rt, "n_explicit_tasks", 0) + 1
        return asyncio.ensure_future(coro)
    return coro


@asynq_dec(asyncio_fn=_explicit_asyncio_entry)
def t_explicit(rt, fr):
    return (yield from lang.exec_node(rt, fr))


class Host(object):
    def __repr__(self):
        return "host"

    @asynq_dec()
    def m(self, rt, fr):
        return (yield from lang.exec_node(rt, fr))

    @asynq_dec()
    @classmethod
    def cm(cls, rt, fr):
        return (yield from lang.exec_node(rt, fr))

    @asynq_dec()
    @staticmethod
    def sm(rt, fr):
        return (yield from lang.exec_node(rt, fr))


HOST = Host()


class FalsyMeta(type):
    def __len__(cls):
        return 0


class FalsyHost(Host, metaclass=FalsyMeta):
    """A host whose instances AND whose class are falsy (container-like, empty)."""

    def __len__(self):
        return 0

    def __repr__(self):
        return "falsy-host"


FALSY_HOST = FalsyHost()


def host_for(fr):
    """Bound styles alternate (by node) between an ordinary and a falsy instance / class."""
    return (HOST, Host) if fr.nid % 2 == 0 else (FALSY_HOST, FalsyHost)


@asynq_dec()
def t_parent(rt, fut):
    return (yield fut)


@asynq_dec()
def t_flushhelper(rt, kind, n):
    """Called synchronously from inside a flush body (a flush that needs another service)."""
    v = yield HItem(rt, kind, "fh%d" % n, ("fh", n))
    return v


@asynq_dec()
def t_nop(rt):
    """A trivial async function; called synchronously from code the scheduler itself runs (value providers,
    context callbacks)."""
    rt.nop_calls += 1
    return 0


@asynq_dec()
def t_runaway(rt, n, mixed=0):
    if n <= 0:
        return 0
    if mixed == 1:
        # a batch item written before the recursive call: the scheduler's stack holds non-task entries too
        got = yield HItem(rt, 0, "ra%d" % n, ("ra", n)), t_runaway.asynq(rt, n - 1, mixed)
        return got[1] + 1
    if mixed == 2:
        got = yield Future(lambda: 0), t_runaway.asynq(rt, n - 1, mixed)
        return got[1] + 1
    if mixed == 3:
        got = yield {"a": ConstFuture(0), "b": t_runaway.asynq(rt, n - 1, mixed), "c": Future(lambda: 1)}
        return got["b"] + 1
    if mixed == 4 and "sv0" in rt.sv:
        # every level of the runaway chain holds an override of its own while it waits for the next one
        with rt.sv["sv0"].override(("runaway-level", n)):
            v = yield t_runaway.asynq(rt, n - 1, mixed)
        return v + 1
    v = yield t_runaway.asynq(rt, n - 1)
    return v + 1


STYLES_GEN = ["asynq", "pure", "method", "classmethod", "staticmethod", "proxy"]
STYLES_PLAIN = ["plain", "pureplain"]


def make_task(style, rt, fr):
    if style == "asynq":
        return t_asynq.asynq(rt, fr)
    if style == "pure":
        return t_pure(rt, fr)
    if style == "plain":
        return t_plain.asynq(rt, fr)
    if style == "pureplain":
        return t_pureplain(rt, fr)
    if style == "proxy":
        return t_proxy.asynq(rt, fr)
    if style == "explicit":
        return t_explicit.asynq(rt, fr)
    if style == "partial":
        return t_partial.asynq(rt, fr)
    if style == "callable":
        return t_callable.asynq(rt, fr)
    if style == "method":
        return host_for(fr)[0].m.asynq(rt, fr)
    if style == "classmethod":
        return host_for(fr)[1].cm.asynq(rt, fr)
    if style == "staticmethod":
        return host_for(fr)[1].sm.asynq(rt, fr)
    raise HarnessFault("style %r" % (style,))


def asyncio_entry(style, rt, fr):
    """The coroutine fn.asyncio(args) for each style."""
    if style == "asynq":
        return t_asynq.asyncio(rt, fr)
    if style == "pure":
        return t_pure.asyncio(rt, fr)
    if style == "plain":
        return t_plain.asyncio(rt, fr)
    if style == "pureplain":
        return t_pureplain.asyncio(rt, fr)
    if style == "proxy":
        return t_proxy.asyncio(rt, fr)
    if style == "explicit":
        return t_explicit.asyncio(rt, fr)
    if style == "partial":
        return t_partial.asyncio(rt, fr)
    if style == "callable":
        return t_callable.asyncio(rt, fr)
    if style == "method":
        return host_for(fr)[0].m.asyncio(rt, fr)
    if style == "classmethod":
        return host_for(fr)[1].cm.asyncio(rt, fr)
    if style == "staticmethod":
        return host_for(fr)[1].sm.asyncio(rt, fr)
    raise HarnessFault("style %r" % (style,))


def sync_call(style, rt, fr, how):
    if style in ("pure", "pureplain") or how == "value":
        return make_task(style, rt, fr).value()
    if style == "asynq":
        return t_asynq(rt, fr)
    if style == "plain":
        return t_plain(rt, fr)
    if style == "proxy":
        return t_proxy(rt, fr)
    if style == "explicit":
        return t_explicit(rt, fr)
    if style == "partial":
        return t_partial(rt, fr)
    if style == "callable":
        return t_callable(rt, fr)
    if style == "method":
        return host_for(fr)[0].m(rt, fr)
    if style == "classmethod":
        return host_for(fr)[1].cm(rt, fr)
    if style == "staticmethod":
        return host_for(fr)[1].sm(rt, fr)
    raise HarnessFault("style %r" % (style,))


# ---------------------------------------------------------------------------
# batches


class HFutureResult(lang.FutureResult, ConstFuture):
    """A real asynq future used as a task's result value."""

    def __init__(self, payload):
        ConstFuture.__init__(self, payload)

    def payload_of(self):
        return self.value()


class HBatch(BatchBase):
    def __init__(self, rt, kind):
        BatchBase.__init__(self)
        self.rt = rt
        self.kind = kind
        self.bid = rt.new_bid(kind)
        rt.batches.append(self)
        self.flush_calls = 0
        self.owner = threading.get_ident()

    def __repr__(self):
        return "HBatch(%s)" % (self.bid,)

    def __str__(self):
        return "HBatch#%s%s" % (self.rt.label, self.bid)

    def _try_switch_active_batch(self):
        rt = self.rt
        ev = rt.evil
        if ev is not None and ev[0] == "switch" and self.bid[1] == ev[1] and not self.is_computed():
            rt.evil_fired += 1
            raise UserErr(("switch", self.bid))
        if rt.active_batches.get(self.kind) is self:
            rt.active_batches[self.kind] = None

    def get_priority(self):
        self.rt.prio_calls += 1
        p = self.rt.priority_of(self)
        if p is None:
            return BatchBase.get_priority(self)
        return p

    def _flush(self):
        self.flush_calls += 1
        self.rt.on_flush_body(self)

    def flush(self):
        BatchBase.flush(self)
        ev = self.rt.evil
        if ev is not None and ev[0] == "override" and self.bid[1] == ev[1]:
            self.rt.evil_fired += 1
            raise UserErr(("flush-override", self.bid))


class HItem(BatchItemBase):
    def __init__(self, rt, kind, key, inst):
        batch = rt.active_batches.get(kind)
        if batch is None:
            batch = HBatch(rt, kind)
            rt.active_batches[kind] = batch
        BatchItemBase.__init__(self, batch)
        self.rt = rt
        self.kind = kind
        self.key = key
        self.inst = inst
        self.completions = 0
        self.bid = batch.bid
        self.on_computed.subscribe(self._on_done)
        self.hit = False
        if key != "spawn" and rt.item_fault(self) == "hit":
            # answered on the spot (a local-cache hit): the request still sits in its batch - and counts for the
            # batch's priority - but nobody has to wait for the flush on its account
            self.hit = True
            v = ("iv", kind, key, inst)
            rt.item_done[inst] = ("val", v)
            rt.n_item_hits = getattr(rt, "n_item_hits", 0) + 1
            self.set_value(v)

    def _on_done(self, _f):
        self.completions += 1
        self.rt.emit("item_done", self.inst)

    # Requests compare by WHAT they ask for (like a dataclass-style request object): two items with the same key are
    # equal although they are different futures, possibly of different batches
    def __eq__(self, other):
        return isinstance(other, HItem) and other.key == self.key

    def __ne__(self, other):
        return not self.__eq__(other)

    def __hash__(self):
        return hash(("HItem", self.key))

    def __repr__(self):
        return "HItem#%s(%s,%s)" % (self.rt.label, self.kind, self.key)


# ---------------------------------------------------------------------------
# contexts


class HCtx(AsyncContext):
    def __init__(self, rt, name, fr):
        self.rt = rt
        self.cid = (name, fr.path, next(rt.ctx_counter))
        self.fr = fr
        self.active = False
        self.entered = False
        self.exited = False
        self.pairs = 0
        self.fail = rt.ctx_faults.get(name) if rt.ctx_faults else None
        self.calls = 0
        self.entry_failed = False

    def __repr__(self):
        return "HCtx%r" % (self.cid,)

    def __enter__(self):
        self.rt.emit("ctx_enter", self.cid)
        self.entered = True
        self.rt.live_ctx[self.cid] = self
        try:
            r = AsyncContext.__enter__(self)
        except BaseException:
            # the with-block is never entered and __exit__ never runs: the context is out of the game
            self.entry_failed = True
            self.rt.live_ctx.pop(self.cid, None)
            self.rt.emit("ctx_entry_failed", self.cid)
            raise
        if not self.active and self.fail is None:
            self.rt.violation("context-not-resumed-on-entry", {"ctx": self.cid})
        return r

    def __exit__(self, ty, val, tb):
        try:
            return AsyncContext.__exit__(self, ty, val, tb)
        finally:
            self.exited = True
            self.rt.live_ctx.pop(self.cid, None)
            self.rt.emit("ctx_exit", self.cid, None if ty is None else ty.__name__)
            if self.active and self.fail is None:
                self.rt.violation(
                    "context-not-paused-on-exit",
                    {"ctx": self.cid, "left_by": None if ty is None else ty.__name__},
                )

    def _maybe_fail(self, what):
        self.calls += 1
        f = self.fail
        if f is not None and f[0] == what and self.calls >= f[1]:
            self.fail = ("done", 0)
            self.rt.emit("ctx_fault", self.cid, what)
            raise lang.make_user_exc(f[2] if len(f) > 2 else "exc", ("ctx", what, self.cid[0]))

    def resume(self):
        if self.entry_failed:
            self.rt.emit("ctx_callback_after_failed_entry", self.cid, "resume")
            self.rt.violation("callback-on-a-context-whose-entry-failed", {"ctx": self.cid, "callback": "resume"})
            return
        if self.calls == 0 and self.fail is not None and self.fail[0] == "resume" and self.fail[1] <= 1:
            # failing on entry: the context never becomes active at all
            self._maybe_fail("resume")
        self.rt.emit("ctx_resume", self.cid)
        if self.active:
            self.rt.violation("context-resumed-twice-without-pause", {"ctx": self.cid})
        if self.exited or not self.entered:
            self.rt.violation("context-resumed-outside-its-block", {"ctx": self.cid})
        self.active = True
        self.rt.on_ctx(self, "resume")
        if self.rt.ctx_sync:
            t_nop(self.rt)
        self._maybe_fail("resume")

    def pause(self):
        if self.entry_failed:
            self.rt.emit("ctx_callback_after_failed_entry", self.cid, "pause")
            self.rt.violation("callback-on-a-context-whose-entry-failed", {"ctx": self.cid, "callback": "pause"})
            return
        self.rt.emit("ctx_pause", self.cid)
        if not self.active:
            self.rt.violation("context-paused-twice-without-resume", {"ctx": self.cid, "in_exit": False})
        if self.exited or not self.entered:
            self.rt.violation("context-paused-outside-its-block", {"ctx": self.cid})
        if self.active:
            self.pairs += 1
        self.active = False
        self.rt.on_ctx(self, "pause")
        if self.rt.ctx_sync:
            t_nop(self.rt)
        self._maybe_fail("pause")


class HNonAsync(NonAsyncContext):
    def __init__(self, rt, name, fr):
        self.rt = rt
        self.cid = (name, fr.path, next(rt.ctx_counter))
        self.fr = fr

    def __repr__(self):
        return "HNonAsync%r" % (self.cid,)

    def __enter__(self):
        self.rt.emit("na_enter", self.cid)
        self.rt.na_created = getattr(self.rt, "na_created", 0) + 1
        self.rt.live_na[self.cid] = self
        return NonAsyncContext.__enter__(self)

    def __exit__(self, ty, val, tb):
        try:
            return NonAsyncContext.__exit__(self, ty, val, tb)
        finally:
            self.rt.live_na.pop(self.cid, None)
            self.rt.emit("na_exit", self.cid, None if ty is None else ty.__name__)


class HLeaf(object):
    __slots__ = ("kind", "spec", "pos", "obj", "inst", "path", "fresh", "under_dict")

    def __init__(self, kind, spec, pos, obj, inst, path=None, fresh=True):
        self.under_dict = False
        self.kind = kind
        self.spec = spec
        self.pos = pos
        self.obj = obj
        self.inst = inst
        self.path = path
        self.fresh = fresh


class AttrHolder(object):
    pass


class _SharedWait(object):
    """Stands for 'the computation being waited for' when that is a task created elsewhere."""

    def __init__(self, leaf):
        self.leaf = leaf
        self.path = leaf.path

    @property
    def done(self):
        return leaf_done(self.leaf)


def leaf_done(leaf):
    try:
        return leaf.obj.is_computed()
    except Exception:
        return False


# ---------------------------------------------------------------------------


class HarnessRT(object):
    def __init__(self, prog, prio=None, seed=0):
        self.prog = prog
        self.log = []
        self.active_batches = {}
        self.batches = []  # every HBatch created, in creation order
        self.batch_seq = itertools.count()
        self.ctx_counter = itertools.count()
        self.tasks = {}  # path -> future
        self.frames = {}  # path -> Frame
        self.items = {}  # inst -> HItem
        self.item_done = {}  # inst -> ("val", v) | ("exc", desc)
        self.item_flush = {}  # inst -> bid of the flush that answered it
        self.shared = {}
        self.prio = prio
        self.seed = seed
        self.prio_calls = 0
        self.switch_fault = None
        self.flush_probes = []
        self.step_probes = []
        self.resume_probes = []
        self.ctx_probes = []
        self.probe_hook = None
        self.sv = {}
        self.attrs = AttrHolder()
        self.defaults = prog.get("defaults", {})
        for name, dv in self.defaults.items():
            if name.startswith("sv"):
                self.sv[name] = AsyncScopedValue(dv)
            else:
                setattr(self.attrs, name, dv)
        self.owner = threading.get_ident()
        self.running_stack = []  # frames whose step is on the Python stack
        self.orphans = []
        self.violations = []  # recorded by in-run probes
        self.global_seq = False
        self.sched = None
        self.faults = prog.get("faults", {})
        self.flush_faults = prog.get("flush_faults", {})
        self.lazy_calls = {}
        self.sync_depth = 0
        self.task_of_frame = {}
        self.provider_probes = []
        self.evil = None
        self.evil_fired = 0
        self.book = None
        self.track_running = True
        self.label = ""
        self.deep_repr = None
        self.cancelled_batches = 0
        self.in_flush_sync = 0
        self.nested_flush_calls = 0
        self.fh_counter = itertools.count()
        self.live_ctx = {}
        self.live_na = {}
        self.ctx_faults = prog.get("ctx_faults")
        self.ctx_sync = bool(prog.get("ctx_sync"))  # context callbacks make a synchronous asynq call
        self.nop_calls = 0
        self.running = []
        self.keep = []
        self.wait_frames = []
        self.yield_leaves = {}
        self.excs = {}
        self.before_probes = []
        self.after_probes = []
        self.close_probes = []
        self.sync_probes = []
        self.before_raise = None
        self.before_count = 0

    def __repr__(self):
        if self.deep_repr is not None:
            # a legal argument whose repr() cannot be computed: a structure nested deeper than the recursion limit
            # (repr() raises RecursionError, a RuntimeError, by itself)
            return "rt#%s%r" % (self.label, self.deep_repr)
        return "rt#%s" % (self.label,)

    # ---- logging
    def emit(self, *ev):
        if self.global_seq:
            self.log.append(ev + (next(GLOBAL_SEQ),))
        else:
            self.log.append(ev)

    def violation(self, oracle, detail):
        self.violations.append({"oracle": oracle, "detail": detail, "at": len(self.log)})

    # ---- batches
    def new_bid(self, kind):
        return (kind, next(self.batch_seq))

    def priority_of(self, batch):
        p = self.prio
        if p is None:
            return None
        mode = p[0]
        if mode == "kind":
            return (p[1][batch.kind % len(p[1])], len(batch.items))
        if mode == "kindonly":
            return (p[1][batch.kind % len(p[1])], 0)
        if mode == "content":
            # a priority derived from what the batch's items ask for (the most urgent request decides): only
            # defined for a batch that has items - which is all the scheduler ever asks about
            return (p[1][batch.kind % len(p[1])], max(len(str(it.key)) for it in batch.items))
        if mode == "rand":
            h = zlib.crc32(("%s:%s:%s" % (p[1], batch.bid[0], batch.bid[1])).encode())
            return (h % p[2], 0)
        if mode == "fewest":
            return (0, -len(batch.items))
        if mode == "tie":
            return (0, 0)
        raise HarnessFault("prio %r" % (p,))

    def item_fault(self, item):
        return self.faults.get("%s:%s" % (item.kind, item.key))

    def on_flush_body(self, batch):
        items = list(batch.items)
        self.emit("flush_body", batch.bid, tuple(it.inst for it in items))
        for p in self.flush_probes:
            p(self, batch, items)
        ff = self.flush_faults.get(str(batch.bid[1]))
        for idx, it in enumerate(items):
            mode = self.item_fault(it)
            if ff is not None and ff[0] == "raise" and idx >= ff[1]:
                e = lang.make_user_exc(ff[2], ("flush", batch.bid))
                self.excs[e.tag] = e
                d = exc_desc(e)
                for rest in items[idx:]:
                    if getattr(rest, "hit", False):
                        continue
                    self.item_done[rest.inst] = ("exc", d)
                    self.item_flush[rest.inst] = batch.bid
                for prev in items[:idx]:
                    # items this flush skipped are completed with the flush's own error
                    if self.item_done.get(prev.inst) == ("exc", ("Unset",)):
                        self.item_done[prev.inst] = ("exc", d)
                self.emit("flush_raise", batch.bid)
                raise e
            if getattr(it, "hit", False):
                continue  # answered when it was created
            self.item_flush[it.inst] = batch.bid
            if mode == "nestedsync":
                # the flush body itself calls asynq code synchronously, which waits on another batch kind
                self.in_flush_sync += 1
                self.nested_flush_calls += 1
                try:
                    t_flushhelper(self, (it.kind + 1) % max(2, self.prog.get("kinds", 2)), next(self.fh_counter))
                except BaseException as e:
                    # the other service failed; this flush body carries on regardless
                    if isinstance(e, (KeyboardInterrupt, SystemExit, HarnessFault)):
                        raise
                    self.emit("nested_call_in_flush_failed", exc_desc(e))
                finally:
                    self.in_flush_sync -= 1
                mode = None
            if mode is None or mode == "spawn":
                if mode == "spawn":
                    n = HItem(self, it.kind, "spawn", ("spawn", batch.bid, idx))
                    self.emit("spawned", batch.bid, n.bid)
                    self.orphans.append(n)
                v = ("iv", it.kind, it.key, it.inst)
                it.set_value(v)
                self.item_done[it.inst] = ("val", v)
            elif mode in ("error", "falsyerror"):
                e = lang.make_user_exc("falsy" if mode == "falsyerror" else "exc", ("item", it.kind, it.key, it.inst))
                self.excs[e.tag] = e
                it.set_error(e)
                self.item_done[it.inst] = ("exc", exc_desc(e))
            elif mode == "baseerror":
                e = UserBaseErr(("item", it.kind, it.key, it.inst))
                self.excs[e.tag] = e
                it.set_error(e)
                self.item_done[it.inst] = ("exc", exc_desc(e))
            elif mode == "unset":
                self.item_done[it.inst] = ("exc", ("Unset",))
            else:
                raise HarnessFault("fault mode %r" % (mode,))

    # ---- events from the program text
    def ev_step(self, fr, k):
        fr.steps += 1
        if k == 0:
            self.frames[fr.path] = fr
        if self.track_running:
            self.running.append(fr)
        self.emit("step", fr.path, k)
        for p in self.step_probes:
            p(self, fr, k)

    def ev_end(self, fr):
        if self.running and self.running[-1] is fr:
            self.running.pop()
        self.emit("end", fr.path)

    def ev_yield(self, fr, k, leaves):
        self.emit(
            "yield",
            fr.path,
            k,
            tuple((l.kind, l.path if l.path is not None else l.inst) for l in leaves),
        )
        fr.rtdata = leaves
        self.yield_leaves[(fr.path, k)] = leaves
        if not self.track_running:
            pass
        elif self.running and self.running[-1] is fr:
            self.running.pop()
        else:
            raise HarnessFault("running stack out of sync at yield of %r" % (fr.path,))

    def snapshot(self, obj):
        """Identity skeleton of what the program is about to yield."""
        t = type(obj)
        if t in (list, tuple):
            return (t, [self.snapshot(x) for x in obj])
        if t is dict:
            return (t, [(k, self.snapshot(v)) for k, v in obj.items()])
        return id(obj)

    def check_unchanged(self, fr, k, obj, snap):
        # the containers a program yields are the program's own objects: it may use them again
        self.n_unchanged_checks = getattr(self, "n_unchanged_checks", 0) + 1
        if self.snapshot(obj) != snap:
            self.violation("yielded-container-was-modified", {"task": fr.path, "yield": k, "now": repr(obj)[:200]})

    def ev_resume(self, fr, k, leaves, got):
        fr.steps += 1
        fr.rtdata = None
        if self.track_running:
            self.running.append(fr)
        self.emit("resume", fr.path, k)
        for p in self.resume_probes:
            p(self, fr, k, leaves, None, got)
        for p in self.step_probes:
            p(self, fr, k + 1)

    def ev_resume_exc(self, fr, k, leaves, e):
        fr.rtdata = None
        self.emit("resume_exc", fr.path, k, exc_desc(e))
        if isinstance(e, GeneratorExit):
            for p in self.close_probes:
                p(self, fr, k, leaves)
            return
        fr.steps += 1
        if self.track_running:
            self.running.append(fr)
        for p in self.resume_probes:
            p(self, fr, k, leaves, e, None)
        for p in self.step_probes:
            p(self, fr, k + 1)

    def ev_caught(self, fr, e):
        self.emit("caught", fr.path, exc_desc(e))

    def probe(self, fr, what):
        if self.probe_hook is not None:
            self.probe_hook(self, fr, what)

    def on_ctx(self, ctx, what):
        for p in self.ctx_probes:
            p(self, ctx, what)

    # ---- services to the program text
    def result(self, fr, value):
        asynq_result(value)

    def future_result(self, fr, value):
        self.n_future_results = getattr(self, "n_future_results", 0) + 1
        return HFutureResult(value)

    def make_exc(self, fr, site, cls):
        if cls == "cached":
            # one module-level error object raised again and again (a cached / singleton failure)
            e = self.excs.get(("cached",))
            if e is None:
                e = self.excs[("cached",)] = lang.make_user_exc("exc", ("cached",))
            self.n_cached_raises = getattr(self, "n_cached_raises", 0) + 1
            return e
        tag = ("raise", site, fr.path)
        e = lang.make_user_exc(cls, tag)
        self.excs[tag] = e
        return e

    def read(self, fr, name):
        if name.startswith("sv"):
            return self.sv[name].get()
        return getattr(self.attrs, name)

    def ctx(self, fr, spec):
        t = spec[0]
        if t == "actx":
            return HCtx(self, spec[1], fr)
        if t == "ov":
            return self.sv[spec[1]].override(spec[2])
        if t == "attr":
            return async_override(self.attrs, spec[1], spec[2])
        if t == "nonasync":
            return HNonAsync(self, spec[1], fr)
        raise HarnessFault("ctx %r" % (t,))

    def style_of(self, nid):
        return self.prog["nodes"][nid]["style"]

    def call(self, nid, path, parent):
        fr = Frame(nid, path, parent)
        fut = make_task(self.style_of(nid), self, fr)
        self.tasks[path] = fut
        self.emit("create", path)
        try:
            fut.on_computed.subscribe(lambda _t, p=path: self.emit("computed", p))
        except AttributeError:
            pass
        return fut

    def _lazy(self, site, inst, mode):
        def provider():
            self.lazy_calls[inst] = self.lazy_calls.get(inst, 0) + 1
            for p in self.provider_probes:
                p(self)
            if mode == "sync":
                # the provider itself uses asynq synchronously (and needs no batch)
                t_nop(self)
                return ("lazy", site, inst)
            if mode == "ok":
                return ("lazy", site, inst)
            e = UserErr(("lazy", site, inst))
            self.excs[e.tag] = e
            raise e

        return Future(provider)

    def make_leaf(self, fr, l, pos):
        kind = l[0]
        inst = (fr.path, fr.k, pos)
        if kind == "again":
            if fr.futs:
                old = fr.futs[l[1] % len(fr.futs)]
                return HLeaf(old.kind, old.spec, pos, old.obj, old.inst, old.path, False)
            l = ["const", ("again-none", l[1])]
            kind = "const"
        if kind == "none":
            return HLeaf(kind, l, pos, None, inst)
        if kind == "junk":
            return HLeaf(kind, l, pos, lang.make_junk(l[1]), inst)
        if kind == "call":
            path = fr.path + (l[1],)
            leaf = HLeaf(kind, l, pos, self.call(l[2], path, fr), inst, path)
        elif kind == "shared":
            sid = l[1]
            if sid in self.shared:
                old = self.shared[sid]
                leaf = HLeaf(kind, l, pos, old.obj, old.inst, old.path, False)
            else:
                path = ("S", sid)
                leaf = HLeaf(
                    kind, l, pos, self.call(self.prog["shared"][sid], path, fr), inst, path
                )
                self.shared[sid] = leaf
        elif kind == "item":
            it = HItem(self, l[1], l[2], inst)
            self.items[inst] = it
            leaf = HLeaf(kind, l, pos, it, inst)
        elif kind == "dbg":
            it = DebugBatchItem(l[1], ("dbg", l[1], l[2], inst))
            leaf = HLeaf(kind, l, pos, it, inst)
        elif kind == "const":
            leaf = HLeaf(kind, l, pos, ConstFuture(lang._freeze(l[1])), inst)
        elif kind == "constexc":
            leaf = HLeaf(kind, l, pos, ConstFuture(UserErr(("value", l[1]))), inst)
        elif kind == "err":
            tag = ("err", l[1], inst)
            e = lang.make_user_exc(l[2], tag)
            self.excs[tag] = e
            leaf = HLeaf(kind, l, pos, ErrorFuture(e), inst)
        elif kind == "lazy":
            leaf = HLeaf(kind, l, pos, self._lazy(l[1], inst, l[2]), inst)
        elif kind == "runaway":
            leaf = HLeaf(kind, l, pos, t_runaway.asynq(self, l[1], l[2] if len(l) > 2 else 0), inst)
        elif kind == "lazyrunaway":
            # a lazily computed future whose provider calls asynq code synchronously
            leaf = HLeaf(kind, l, pos, Future(lambda n=l[1], m=(l[2] if len(l) > 2 else 0): t_runaway(self, n, m)), inst)
        else:
            raise HarnessFault("leaf %r" % (kind,))
        fr.futs.append(leaf)
        return leaf

    def build(self, fr, spec):
        leaves = []
        struct = self._build(fr, spec, leaves)
        return struct, leaves

    def _build(self, fr, spec, leaves, under_dict=False):
        t = spec[0]
        if t == "leaf":
            leaf = self.make_leaf(fr, spec[1], len(leaves))
            leaf.under_dict = under_dict
            leaves.append(leaf)
            return leaf.obj
        if t == "tuple":
            return tuple([self._build(fr, s, leaves, under_dict) for s in spec[1]])
        if t == "list":
            return [self._build(fr, s, leaves, under_dict) for s in spec[1]]
        if t == "dict":
            return {k: self._build(fr, s, leaves, True) for k, s in spec[1]}
        raise HarnessFault("struct %r" % (t,))

    def orphan(self, fr, l):
        leaf = self.make_leaf(fr, l, -1 - len(self.orphans))
        fr.futs.pop()
        self.orphans.append(leaf)
        self.emit("orphan", leaf.kind, leaf.path if leaf.path is not None else leaf.inst)

    def sync_shared(self, fr, st):
        sid = st[1]
        if sid in self.shared:
            leaf = self.shared[sid]
        else:
            path = ("S", sid)
            leaf = HLeaf("shared", ["shared", sid], 0, self.call(self.prog["shared"][sid], path, fr), (fr.path, "ss", sid), path)
            self.shared[sid] = leaf
        self.emit("sync_enter", fr.path, ("S", sid))
        self.sync_depth += 1
        target = self.frames.get(("S", sid)) or Frame(self.prog["shared"][sid], ("S", sid), fr)
        self.wait_frames.append(_SharedWait(leaf))
        ok = False
        try:
            v = leaf.obj.value()
            ok = True
            return v
        finally:
            self.wait_frames.pop()
            self.sync_depth -= 1
            self.emit("sync_exit", fr.path, ("S", sid))
            for p in self.sync_probes:
                p(self, fr, ok)

    def cancel_batch(self, fr, st):
        b = self.active_batches.get(st[1])
        if b is None or b.is_flushed():
            return
        pending = [it for it in b.items if not it.is_computed()]
        b.cancel()
        self.emit("cancel", b.bid, tuple(it.inst for it in pending))
        self.cancelled_batches += 1
        for it in pending:
            self.item_done[it.inst] = ("exc", exc_desc(it.error()))

    def sync_item(self, fr, st):
        _, site, kind, key = st
        inst = (fr.path, "s", site)
        it = HItem(self, kind, key, inst)
        self.items[inst] = it
        self.emit("syncitem", fr.path, inst)
        return it.value()

    def sync_call(self, fr, st):
        _, site, nid, how = st
        path = fr.path + (site,)
        self.emit("sync_enter", fr.path, path)
        self.sync_depth += 1
        callee = Frame(nid, path, fr)
        self.wait_frames.append(callee)
        ok = False
        try:
            v = sync_call(self.style_of(nid), self, callee, how)
            ok = True
            return v
        finally:
            self.wait_frames.pop()
            self.sync_depth -= 1
            self.emit("sync_exit", fr.path, path)
            for p in self.sync_probes:
                p(self, fr, ok)

    # ---- scheduler events
    def _before(self, batch):
        self.emit("flush_before", batch_label(batch))
        for p in self.before_probes:
            p(self, batch)
        self.before_count += 1
        if self.before_raise is not None and self.before_count == self.before_raise:
            raise UserErr(("before-subscriber", self.before_count))
        ev = self.evil
        if ev is not None and ev[0] == "preflush" and getattr(batch, "bid", (None, None))[1] == ev[1]:
            self.evil_fired += 1
            batch.flush()  # public API; the scheduler's own flush() will now raise BatchingError

    def _after(self, batch):
        self.emit("flush_after", batch_label(batch))
        for p in self.after_probes:
            p(self, batch)

    def attach(self):
        self.sched = asynq_scheduler.get_scheduler()
        self.sched.on_before_batch_flush.subscribe(self._before)
        self.sched.on_after_batch_flush.subscribe(self._after)

    def detach(self):
        if self.sched is not None:
            try:
                self.sched.on_before_batch_flush.unsubscribe(self._before)
                self.sched.on_after_batch_flush.unsubscribe(self._after)
            except Exception:
                pass
            self.sched = None

    def run(self, how="call", fresh_scheduler=True):
        """Run the program's root. Returns ("val", v) | ("exc", desc, instance)."""
        if fresh_scheduler:
            asynq_scheduler.reset()
            reset_debug_batches()
        self.attach()
        root = Frame(self.prog.get("root", 0), (), None)
        style = self.style_of(root.nid)
        self.emit("top_enter", how)
        self.wait_frames.append(root)
        try:
            if how == "call":
                v = sync_call(style, self, root, "call")
            elif how == "value":
                v = sync_call(style, self, root, "value")
            elif how == "yielded":
                fut = make_task(style, self, root)
                self.tasks[()] = fut
                v = t_parent(self, fut)
            elif how == "yielded_value":
                fut = make_task(style, self, root)
                self.tasks[()] = fut
                v = t_parent.asynq(self, fut).value()
            elif how == "prebuilt":
                # the root task object was built earlier (possibly on another thread)
                fut = self.prebuilt
                self.tasks[()] = fut
                v = fut.value()
            else:
                raise HarnessFault("how %r" % (how,))
            out = ("val", v)
        except HarnessFault:
            raise
        except BaseException as e:
            if isinstance(e, (KeyboardInterrupt, SystemExit, MemoryError)):
                raise
            out = ("exc", exc_desc(e), e)
        finally:
            self.wait_frames.pop()
            self.emit("top_exit")
            self.detach()
        return out


def batch_label(batch):
    b = getattr(batch, "bid", None)
    if b is not None:
        return b
    return ("dbg", getattr(batch, "name", "?"), getattr(batch, "index", -1))


def reset_debug_batches():
    import asynq.batching as b

    b._debug_batch_state.batches.clear()


def scheduler_counts():
    """(tasks, batches, active) from the public str() of the scheduler and
    from its public attributes; both must agree."""
    s = asynq_scheduler.get_scheduler()
    return len(s._tasks), len(s._batches), s.active_task


def flush_sequence(log):
    return tuple(ev[1] for ev in log if ev[0] == "flush_body")
