"""Seeded generator of Tasklang programs, driven by a per-property profile."""

import collections
import copy
import random

from . import lang

BASE_PROFILE = dict(
    max_nodes=14,
    max_depth=5,
    max_stmts=4,
    max_width=4,
    struct_depth=2,
    block_depth=3,
    kinds=2,
    w_stmt=dict(
        yield_=8, sync=1.0, raise_=0.5, try_=1.2, with_=1.0, read=0.0, ret=0.3, orphan=0.2, probe=0.0, syncitem=0.0, cancelbatch=0.0
    ),
    w_leaf=dict(
        call=6, item=4, const=1, none=0.6, err=0.3, lazy=0.3, again=0.5, junk=0.1, dbg=0.3, constexc=0.15
    ),
    w_struct=dict(leaf=5, tuple=2, list=3, dict=1.5),
    ctxs=["actx", "ov", "attr"],
    try_kinds=["exc", "exc", "base", "none"],
    exc_cls=["exc", "exc", "exc", "base", "falsy", "frozen", "tasky", "cached", "typed"],
    styles=["asynq", "asynq", "asynq", "pure", "method", "classmethod", "staticmethod", "proxy"],
    plain_styles=["plain", "plain", "pureplain"],
    p_reuse=0.15,
    p_shared=0.35,
    p_result=0.3,
    p_item_fault=0.0,
    item_fault_modes=["error", "unset", "baseerror", "falsyerror"],
    p_flush_fault=0.0,
    p_same_object=0.08,
    p_ctx_sync=0.0,
    p_future_result=0.05,
    p_nonlifo=0.0,  # per block: two logging contexts entered A, G and left A, G (not nested), with statements between  # a task whose result is itself a future object  # logging contexts whose resume()/pause() make a synchronous asynq call  # a yielded container is yielded again / reached by two routes in one yield
    p_spawn=0.0,
    max_instances=300,
    sv_names=["sv0", "sv1", "at0"],
    junk=["int", "str", "set", "nt", "obj", "nt_none", "odict", "ddict", "listsub"],
    lazy_modes=["ok", "ok", "raise"],
    sync_how=["call", "value"],
    root_yields=True,
)


def profile(**over):
    p = copy.deepcopy(BASE_PROFILE)
    for k, v in over.items():
        if isinstance(v, dict) and isinstance(p.get(k), dict):
            p[k].update(v)
        else:
            p[k] = v
    return p


def _wchoice(rnd, weights):
    items = [(k, w) for k, w in weights.items() if w > 0]
    tot = sum(w for _, w in items)
    x = rnd.random() * tot
    for k, w in items:
        x -= w
        if x <= 0:
            return k
    return items[-1][0]


class Gen(object):
    def __init__(self, rnd, prof):
        self.rnd = rnd
        self.p = prof
        self.nodes = []
        self.depths = []
        self.pending = collections.deque()
        self.site = 0
        self.key = 0
        self.faults = {}
        self.ovval = 100
        self.struct_depth = rnd.choice(prof["struct_depth_choices"]) if prof.get("struct_depth_choices") else prof["struct_depth"]
        self.kind_w = None
        if prof.get("kind_skew"):
            self.kind_w = [rnd.random() ** 2 + 0.05 for _ in range(prof["kinds"])]

    def pick_kind(self):
        if self.kind_w is None:
            return self.rnd.randrange(self.p["kinds"])
        x = self.rnd.random() * sum(self.kind_w)
        for k, w in enumerate(self.kind_w):
            x -= w
            if x <= 0:
                return k
        return len(self.kind_w) - 1

    def new_site(self, prefix):
        self.site += 1
        return "%s%d" % (prefix, self.site)

    def new_node(self, depth):
        nid = len(self.nodes)
        self.nodes.append({"style": "asynq", "ret": "return", "body": []})
        self.depths.append(depth)
        self.pending.append(nid)
        return nid

    def callee(self, nid, depth):
        rnd = self.rnd
        if depth + 1 > self.p["max_depth"]:
            return None
        if (
            rnd.random() < self.p["p_reuse"]
            and len(self.nodes) > nid + 1
        ):
            cands = [
                n
                for n in range(nid + 1, len(self.nodes))
                if self.depths[n] >= depth + 1
            ]
            if cands:
                return rnd.choice(cands)
        if len(self.nodes) >= self.p["max_nodes"]:
            return None
        return self.new_node(depth + 1)

    def leaf(self, nid, depth):
        rnd = self.rnd
        kind = _wchoice(rnd, self.p["w_leaf"])
        if kind == "call":
            c = self.callee(nid, depth)
            if c is None:
                kind = "item" if self.p["w_leaf"].get("item", 0) > 0 else "const"
            else:
                return ["call", self.new_site("c"), c]
        if kind == "item":
            self.key += 1
            k = self.pick_kind()
            key = "k%d" % self.key
            if rnd.random() < self.p["p_item_fault"]:
                self.faults["%s:%s" % (k, key)] = rnd.choice(self.p["item_fault_modes"])
            elif rnd.random() < self.p["p_spawn"]:
                self.faults["%s:%s" % (k, key)] = "spawn"
            elif rnd.random() < self.p.get("p_nestedsync", 0.0):
                self.faults["%s:%s" % (k, key)] = "nestedsync"
            return ["item", k, key]
        if kind == "dbg":
            self.key += 1
            return ["dbg", "d%d" % rnd.randrange(self.p.get("dbg_names", 2)), "k%d" % self.key]
        if kind == "const":
            return ["const", rnd.choice([0, 1, "x", None, ["t", self.new_site("v")]])]
        if kind == "none":
            return ["none"]
        if kind == "constexc":
            return ["constexc", self.new_site("x")]
        if kind == "err":
            return ["err", self.new_site("e"), rnd.choice(self.p["exc_cls"])]
        if kind == "lazy":
            return ["lazy", self.new_site("l"), rnd.choice(self.p["lazy_modes"])]
        if kind == "again":
            return ["again", rnd.randrange(8)]
        if kind == "junk":
            return ["junk", rnd.choice(self.p["junk"])]
        raise AssertionError(kind)

    def struct(self, nid, depth, sdepth):
        rnd = self.rnd
        t = _wchoice(rnd, self.p["w_struct"]) if sdepth < self.struct_depth else "leaf"
        if t == "leaf":
            return ["leaf", self.leaf(nid, depth)]
        n = rnd.choice([0, 1, 1, 2, 2, 2, 3, 3, 4, 5])
        n = min(n, self.p["max_width"])
        kids = [self.struct(nid, depth, sdepth + 1) for _ in range(n)]
        if t == "dict":
            keys = ["d%d" % i for i in range(n)]
            rnd.shuffle(keys)
            return ["dict", [[k, s] for k, s in zip(keys, kids)]]
        return [t, kids]

    def _may_fail(self, struct):
        for l in lang.iter_leaves(struct):
            if l[0] in ("err", "junk") or (l[0] == "lazy" and l[2] == "raise"):
                return True
            if l[0] == "item" and ("%s:%s" % (l[1], l[2])) in self.faults:
                return True
        return False

    def ctxspec(self):
        rnd = self.rnd
        t = rnd.choice(self.p["ctxs"])
        if t == "actx":
            return ["actx", self.new_site("a")]
        if t == "nonasync":
            return ["nonasync", self.new_site("n")]
        self.ovval += 1
        val = self.ovval
        if rnd.random() < self.p.get("p_equal_values", 0.0):
            # values that compare equal but are different values to a program (1 == True == 1.0)
            val = rnd.choice([1, True, 1.0, 0, False, 0.0])
        if t == "ov":
            names = [n for n in self.p["sv_names"] if n.startswith("sv")]
            return ["ov", rnd.choice(names), val]
        names = [n for n in self.p["sv_names"] if n.startswith("at")]
        return ["attr", rnd.choice(names), val]

    def block(self, nid, depth, bdepth, nmax, allow_yield=True):
        rnd = self.rnd
        out = []
        n = rnd.randint(1, max(1, nmax))
        nonlifo = allow_yield and self.p.get("p_nonlifo", 0) and rnd.random() < self.p["p_nonlifo"]
        w = dict(self.p["w_stmt"])
        if bdepth >= self.p["block_depth"]:
            w["try_"] = 0
            w["with_"] = 0
        if not allow_yield:
            w["yield_"] = 0
        for _ in range(n):
            op = _wchoice(rnd, w)
            if op == "yield_":
                st = ["yield", self.struct(nid, depth, 0)]
                if st[1][0] != "leaf" and self.p.get("p_same_object", 0) and rnd.random() < self.p["p_same_object"]:
                    st.append(rnd.choice(["twice", "twice", "dup"]))
                if self.p.get("p_wrap", 0) and rnd.random() < self.p["p_wrap"] and self._may_fail(st[1]):
                    handler = self.block(nid, depth, bdepth + 1, 2, allow_yield) if rnd.random() < 0.5 else []
                    st = ["try", [st], rnd.choice(["exc", "base", "base"]), handler, rnd.random() < 0.3]
                out.append(st)
            elif op == "sync":
                c = self.callee(nid, depth)
                if c is None:
                    out.append(["yield", ["leaf", self.leaf(nid, depth)]])
                else:
                    out.append(["sync", self.new_site("s"), c, rnd.choice(self.p["sync_how"])])
            elif op == "raise_":
                out.append(["raise", self.new_site("r"), rnd.choice(self.p["exc_cls"])])
                break
            elif op == "try_":
                body = self.block(nid, depth, bdepth + 1, 3, allow_yield)
                kind = rnd.choice(self.p["try_kinds"])
                if rnd.random() < self.p.get("p_try_raise", 0.5):
                    cls = rnd.choice(self.p["exc_cls"])
                    body.append(["raise", self.new_site("r"), cls])
                    if rnd.random() < self.p.get("p_try_matches", 0.8):
                        kind = "base" if cls == "base" else rnd.choice(["exc", "exc", "base"])
                handler = (
                    self.block(nid, depth, bdepth + 1, 2, allow_yield)
                    if kind != "none" and rnd.random() < 0.6
                    else []
                )
                fin = rnd.random() < 0.4 or kind == "none"
                out.append(["try", body, kind, handler, fin])
            elif op == "with_":
                out.append(
                    ["with", self.ctxspec(), self.block(nid, depth, bdepth + 1, 3, allow_yield)]
                )
            elif op == "read":
                out.append(["read", rnd.choice(self.p["sv_names"])])
            elif op == "ret":
                out.append(["ret", rnd.choice(["return", "result"])])
                break
            elif op == "orphan":
                kind = rnd.choice(["call", "item"])
                if kind == "call":
                    c = self.callee(nid, depth)
                    if c is not None:
                        out.append(["orphan", ["call", self.new_site("o"), c]])
                else:
                    self.key += 1
                    out.append(
                        ["orphan", ["item", rnd.randrange(self.p["kinds"]), "k%d" % self.key]]
                    )
            elif op == "probe":
                out.append(["probe", rnd.randrange(1000)])
            elif op == "cancelbatch":
                out.append(["cancelbatch", self.pick_kind()])
            elif op == "syncitem":
                self.key += 1
                k = self.pick_kind()
                key = "k%d" % self.key
                if rnd.random() < self.p["p_item_fault"]:
                    self.faults["%s:%s" % (k, key)] = rnd.choice(self.p["item_fault_modes"])
                out.append(["syncitem", self.new_site("y"), k, key])
        if nonlifo and out and out[-1][0] not in ("raise", "ret"):
            # open A ... open G ... close A ... close G : the two logging contexts overlap without nesting
            a, g = self.new_site("na"), self.new_site("ng")
            cuts = sorted(rnd.randint(0, len(out)) for _ in range(4))
            ins = [(cuts[0], ["ctxopen", ["actx", a], a]), (cuts[1], ["ctxopen", ["actx", g], g]), (cuts[2], ["ctxclose", a]), (cuts[3], ["ctxclose", g])]
            for pos, stmt in reversed(ins):
                out.insert(pos, stmt)
        return out

    def program(self):
        rnd = self.rnd
        p = self.p
        self.new_node(0)
        while self.pending:
            nid = self.pending.popleft()
            node = self.nodes[nid]
            plain = nid != 0 and rnd.random() < p.get("p_plain", 0.12)
            node["body"] = self.block(
                nid, self.depths[nid], 0, p["max_stmts"], allow_yield=not plain
            )
            if rnd.random() < p["p_result"]:
                node["ret"] = "result"
            elif p.get("p_future_result") and nid != 0 and rnd.random() < p["p_future_result"]:
                node["ret"] = "future"
        # styles
        for node in self.nodes:
            if lang.node_has_yield(node):
                node["style"] = rnd.choice(p["styles"])
            else:
                node["style"] = rnd.choice(p["plain_styles"])
        prog = {
            "nodes": self.nodes,
            "root": 0,
            "shared": [],
            "kinds": p["kinds"],
            "faults": self.faults,
            "flush_faults": {},
            "defaults": {n: "dflt-" + n for n in p["sv_names"]},
        }
        if p.get("p_ctx_sync") and rnd.random() < p["p_ctx_sync"]:
            prog["ctx_sync"] = True
        if rnd.random() < p["p_shared"]:
            self.add_shared(prog)
        if p["p_flush_fault"] and rnd.random() < p["p_flush_fault"]:
            for _ in range(rnd.randint(1, 2)):
                prog["flush_faults"][str(rnd.randrange(6))] = [
                    "raise",
                    rnd.randrange(3),
                    rnd.choice(p["exc_cls"]),
                ]
        return prog

    def call_sites(self, prog):
        out = []
        for nid, node in enumerate(prog["nodes"]):
            for st in lang.iter_stmts(node["body"]):
                if st[0] == "yield":
                    self._sites_in(st[1], nid, out)
        return out

    def _sites_in(self, struct, nid, out):
        t = struct[0]
        if t == "leaf":
            if struct[1][0] == "call":
                out.append((nid, struct))
        elif t in ("tuple", "list"):
            for s in struct[1]:
                self._sites_in(s, nid, out)
        else:
            for _k, s in struct[1]:
                self._sites_in(s, nid, out)

    def _all_blocks(self, block):
        yield block
        for st in block:
            if st[0] == "try":
                for b in self._all_blocks(st[1]):
                    yield b
                for b in self._all_blocks(st[3]):
                    yield b
            elif st[0] == "with":
                for b in self._all_blocks(st[2]):
                    yield b

    def add_shared(self, prog):
        rnd = self.rnd
        for _ in range(rnd.randint(1, 2)):
            sites = self.call_sites(prog)
            if len(sites) < 2:
                return
            nid, s = rnd.choice(sites)
            target = s[1][2]
            others = [(n, o) for n, o in sites if o is not s and n < target]
            if not others:
                continue
            sid = len(prog["shared"])
            prog["shared"].append(target)
            s[1] = ["shared", sid]
            for n, o in rnd.sample(others, min(len(others), rnd.randint(1, 2))):
                o[1] = ["shared", sid]
            # some synchronous calls become synchronous waits on that (possibly in-flight) shared task
            if self.p.get("p_syncshared", 0):
                for n2, node in enumerate(prog["nodes"]):
                    if n2 >= target:
                        break
                    for blk in self._all_blocks(node["body"]):
                        for i, st in enumerate(blk):
                            if st[0] == "sync" and rnd.random() < self.p["p_syncshared"]:
                                blk[i] = ["syncshared", sid]


def instances(prog, cap):
    """Upper bound on task instances (shared counted once)."""
    nodes = prog["nodes"]
    memo = {}

    def count(nid):
        if nid in memo:
            return memo[nid]
        memo[nid] = 1  # guards (acyclic anyway)
        tot = 1
        for st in lang.iter_stmts(nodes[nid]["body"]):
            if st[0] == "yield":
                for l in lang.iter_leaves(st[1]):
                    if l[0] == "call":
                        tot += count(l[2])
            elif st[0] == "sync":
                tot += count(st[2])
            elif st[0] == "orphan" and st[1][0] == "call":
                pass
            if tot > cap * 4:
                break
        memo[nid] = tot
        return tot

    tot = count(prog.get("root", 0))
    for t in prog.get("shared", []):
        tot += count(t)
    return tot


def generate(seed, prof):
    rnd = random.Random(seed)
    for attempt in range(20):
        g = Gen(rnd, prof)
        prog = g.program()
        if instances(prog, prof["max_instances"]) <= prof["max_instances"]:
            return prog
    return prog


def revisit_program(rnd, nac=False):
    """A structured family the random generator rarely hits: a task that the scheduler reaches more than once in
    ONE traversal (awaited by two parents, or written twice in one yield) is first found waiting for a batch;
    a sibling then flushes that batch by hand (item.value()), so the next visit finds the task runnable: it
    continues inside a context, blocks again - and other tasks (which read the overridden value) run next."""
    site = [0]

    def st(prefix):
        site[0] += 1
        return "%s%d" % (prefix, site[0])

    def item(kind):
        site[0] += 1
        return ["leaf", ["item", kind, "k%d" % site[0]]]

    k = rnd.randrange(2)
    ctx = rnd.choice([["ov", "sv0", 300 + rnd.randrange(50)], ["attr", "at0", 400 + rnd.randrange(50)], ["actx", "rv"], ["ov", "sv0", rnd.choice([1, True, 0])]])
    inner = [["yield", item(rnd.choice([k, 1 - k]))]]
    if rnd.random() < 0.4:
        inner.append(["yield", item(k)])
    s_body = [["yield", item(k)], ["with", ctx, inner]]
    if rnd.random() < 0.3:
        s_body.insert(0, ["with", ["actx", "early"], [["yield", ["leaf", ["none"]]]]])
    deep = rnd.random() < 0.5
    reader = [["read", "sv0"], ["read", "at0"]]
    if rnd.random() < 0.6:
        reader = [["with", ["actx", "rd"], [["yield", item(1 - k)]] + reader]] + reader
    flusher = [["syncitem", st("y"), k, "kf%d" % rnd.randrange(100)]]
    if rnd.random() < 0.5:
        flusher.append(["read", "sv0"])
    mode = rnd.choice(["two_parents", "two_parents", "twice_in_one_yield"])
    nodes = [{"style": "asynq", "ret": "return", "body": []} for _ in range(6)]
    # 5 = the task reached twice, 4 = the one that flushes by hand, 3 = the reader
    nodes[5]["body"] = s_body
    if deep:
        # the task reached twice does not wait for the item itself but for a child (or grandchild) that does: on
        # the second visit it is STILL blocked, while something below it has become runnable
        nodes.append({"style": "asynq", "ret": "return", "body": s_body})
        nodes[5]["body"] = [["yield", ["leaf", ["call", st("c"), 6]]], ["yield", item(rnd.randrange(2))]]
        if rnd.random() < 0.4:
            nodes.append({"style": "asynq", "ret": "return", "body": nodes[6]["body"]})
            nodes[6]["body"] = [["with", ["actx", "midctx"], [["yield", ["tuple", [["leaf", ["call", st("c"), 7]]]]]]]]
    nodes[4]["body"] = flusher
    nodes[3]["body"] = reader
    if mode == "two_parents":
        nodes[1]["body"] = [["yield", ["list", [["leaf", ["shared", 0]]]]], ["read", "sv0"]]
        nodes[2]["body"] = [["yield", ["leaf", ["call", st("c"), 4]]], ["yield", ["tuple", [["leaf", ["shared", 0]]]]], ["read", "at0"]]
        members = [["leaf", ["call", st("c"), 1]], ["leaf", ["call", st("c"), 2]], ["leaf", ["call", st("c"), 3]]]
    else:
        nodes[1]["body"] = [["yield", ["list", [["leaf", ["shared", 0]], ["leaf", ["call", st("c"), 4]], ["leaf", ["shared", 0]], ["leaf", ["call", st("c"), 3]]]]]]
        nodes[2]["body"] = [["read", "sv0"]]
        members = [["leaf", ["call", st("c"), 1]], ["leaf", ["call", st("c"), 2]]]
    nodes[0]["body"] = [["yield", [rnd.choice(["list", "tuple"]), members]], ["read", "sv0"], ["read", "at0"]]
    if nac and mode == "two_parents":
        # the second parent holds a NonAsyncContext around its await of the shared task, whose whole subtree only
        # needed the item that was flushed by hand: nothing has to be flushed for it any more, so it must not fail
        nodes[5]["body"] = [["yield", ["leaf", ["call", st("c"), 6]]]]
        del nodes[6:]
        nodes.append({"style": "asynq", "ret": "return", "body": [["yield", item(k)]]})
        nodes[2]["body"] = [["yield", ["leaf", ["call", st("c"), 4]]], ["with", ["nonasync", "nz"], [["yield", ["tuple", [["leaf", ["shared", 0]]]]]]], ["read", "at0"]]
    for node in nodes:
        node["style"] = rnd.choice(["asynq", "asynq", "method", "proxy"])
    return {
        "nodes": nodes,
        "root": 0,
        "shared": [5],
        "kinds": 2,
        "faults": {},
        "flush_faults": {},
        "defaults": {"sv0": "dflt-sv0", "sv1": "dflt-sv1", "at0": "dflt-at0"},
    }


def recatch_program(rnd, leafs=("none", "const")):
    """A structured family: ONE error object (a cached / module-level failure) is raised by several children and
    caught again and again by the same, still running, body - which goes on awaiting after each catch."""
    site = [0]

    def st(prefix):
        site[0] += 1
        return "%s%d" % (prefix, site[0])

    def filler():
        k = rnd.choice(leafs)
        if k == "none":
            return ["leaf", ["none"]]
        if k == "item":
            return ["leaf", ["item", rnd.randrange(2), st("k")]]
        return ["leaf", ["const", rnd.choice([0, 1, "x"])]]

    nodes = [{"style": "asynq", "ret": "return", "body": []}]

    def raiser(depth):
        nid = len(nodes)
        nodes.append({"style": rnd.choice(["asynq", "asynq", "method", "proxy", "pure"]), "ret": "return", "body": []})
        body = []
        if rnd.random() < 0.5:
            body.append(["yield", filler()])
        if depth > 0 and rnd.random() < 0.5:
            inner = raiser(depth - 1)
            body.append(["yield", ["leaf", ["call", st("c"), inner]]])
        else:
            body.append(["raise", st("r"), "cached"])
        nodes[nid]["body"] = body
        return nid

    root = []
    for _ in range(rnd.randint(2, 4)):
        members = [["leaf", ["call", st("c"), raiser(rnd.randrange(3))]]]
        if rnd.random() < 0.4:
            members.insert(rnd.randrange(2), filler())
        struct = members[0] if len(members) == 1 and rnd.random() < 0.5 else [rnd.choice(["list", "tuple"]), members]
        handler = [["yield", filler()]] if rnd.random() < 0.5 else []
        root.append(["try", [["yield", struct]], "exc", handler, []])
        if rnd.random() < 0.4:
            root.append(["yield", filler()])
    root.append(["yield", filler()])
    if rnd.random() < 0.3:
        root.append(["raise", st("r"), "cached"])
    nodes[0]["body"] = root
    return {
        "nodes": nodes,
        "root": 0,
        "shared": [],
        "kinds": 2,
        "faults": {},
        "flush_faults": {},
        "defaults": {"sv0": "dflt-sv0", "sv1": "dflt-sv1", "at0": "dflt-at0"},
    }


def overlap_program(rnd):
    """Scoped overrides with NON-lexical lifetimes in one task: entered A then G (different variables, so the
    sequential meaning is unambiguous), left A then G - the context that is left is not the most recently entered
    one - with suspensions and reads in between, next to siblings that read the same variables."""
    site = [0]

    def item():
        site[0] += 1
        return ["leaf", ["item", rnd.randrange(2), "o%d" % site[0]]]

    def reads():
        return [["read", "sv0"], ["read", "sv1"], ["read", "at0"]]

    kinds = [["ov", "sv0", 700 + rnd.randrange(50)], ["ov", "sv1", 800 + rnd.randrange(50)], ["attr", "at0", 900 + rnd.randrange(50)]]
    rnd.shuffle(kinds)
    ca, cg = kinds[0], kinds[1]
    worker = []
    if rnd.random() < 0.5:
        worker += [["yield", item()]]
    worker += [["ctxopen", ca, "A"]] + reads()
    if rnd.random() < 0.6:
        worker += [["yield", item()]] + reads()
    worker += [["ctxopen", cg, "G"]] + reads() + [["yield", item()]] + reads()
    worker += [["ctxclose", "A"]] + reads() + [["yield", item()]] + reads()
    if rnd.random() < 0.5:
        worker += [["with", kinds[2], [["yield", item()]] + reads()]] + reads()
    worker += [["ctxclose", "G"]] + reads()
    if rnd.random() < 0.5:
        worker += [["yield", item()]] + reads()
    sib = reads()
    for _ in range(rnd.randint(2, 4)):
        sib += [["yield", item()]] + reads()
    nodes = [
        {"style": "asynq", "ret": "return", "body": reads() + [["yield", ["list", [["leaf", ["call", "oc1", 1]], ["leaf", ["call", "oc2", 2]]] + ([["leaf", ["call", "oc3", 2]]] if rnd.random() < 0.4 else [])]]] + reads()},
        {"style": rnd.choice(["asynq", "method", "proxy"]), "ret": "return", "body": worker},
        {"style": "asynq", "ret": "return", "body": sib},
    ]
    if rnd.random() < 0.5:
        nodes[0]["body"][3][1][1].reverse()
    return {
        "nodes": nodes,
        "root": 0,
        "shared": [],
        "kinds": 2,
        "faults": {},
        "flush_faults": {},
        "defaults": {"sv0": "dflt-sv0", "sv1": "dflt-sv1", "at0": "dflt-at0"},
    }


def equalise_items(prog, rnd, p=0.5):
    """Make some yields ask for the SAME key from two different batch kinds (request objects compare by key): the two
    items are equal but not identical, and sit in different pending batches."""
    n = 0
    for node in prog["nodes"]:
        for st in lang.iter_stmts(node["body"]):
            if st[0] != "yield":
                continue
            items = [l for l in lang.iter_leaves(st[1]) if l[0] == "item"]
            for a, b in zip(items, items[1:]):
                if a[1] != b[1] and rnd.random() < p:
                    b[2] = a[2]
                    n += 1
    return n


def survivor_program(rnd):
    """A task makes a synchronous asynq call that runs away and is stopped by the (lowered) MAX_TASK_STACK_SIZE
    guard, catches the RuntimeError - and goes on: FURTHER synchronous calls, contexts entered afterwards, batched
    work. It is still a running task, and everything about it has to keep working."""
    n = [0]

    def item(kind):
        n[0] += 1
        return ["leaf", ["item", kind, "sv%d" % n[0]]]

    runaway = ["leaf", [rnd.choice(["runaway", "runaway", "lazyrunaway"]), rnd.choice([150, 400]), rnd.choice([0, 0, 1, 2, 3, 4, 4])]]
    deep = [["yield", runaway]]
    if rnd.random() < 0.5:
        deep.insert(0, ["yield", item(1)])
    after = [["sync", "sv_s2", 3, rnd.choice(["call", "value"])], ["read", "sv0"]]
    if rnd.random() < 0.6:
        after += [["with", rnd.choice([["actx", "sv_ctx"], ["ov", "sv0", 88], ["attr", "at0", 89]]), [["yield", item(rnd.randrange(2))], ["read", "sv0"], ["read", "at0"]]]]
    if rnd.random() < 0.5:
        after += [["sync", "sv_s3", 3, "call"]]
    after += [["yield", ["tuple", [item(0), item(1)]]]]
    survivor = [["yield", item(0)]] if rnd.random() < 0.5 else []
    survivor += [["try", [["sync", "sv_s1", 2, rnd.choice(["call", "value"])]], "exc", [], []]] + after
    helper = [["yield", item(rnd.randrange(2))]] if rnd.random() < 0.7 else []
    top = rnd.random() < 0.4
    nodes = [
        {"style": "asynq", "ret": "return", "body": survivor if top else [["yield", ["list", [["leaf", ["call", "sv_c1", 1]], item(1)]]], ["yield", item(0)]]},
        {"style": rnd.choice(["asynq", "method"]), "ret": "return", "body": [["yield", item(1)]] if top else survivor},
        {"style": "asynq", "ret": "return", "body": deep},
        {"style": rnd.choice(["asynq", "plain"]), "ret": "return", "body": helper if True else []},
    ]
    if nodes[3]["style"] == "plain":
        nodes[3]["body"] = []
    return {
        "nodes": nodes,
        "root": 0,
        "shared": [],
        "kinds": 2,
        "faults": {},
        "flush_faults": {},
        "max_stack": rnd.choice([40, 90]),
        "defaults": {"sv0": "dflt-sv0", "sv1": "dflt-sv1", "at0": "dflt-at0"},
    }


def sameval_program(rnd):
    """A task overrides a scoped value with the very value it holds at that moment (its parent overrode it with
    the same object), waits for a batch inside the block and reads afterwards. It is awaited by a second parent WITHOUT
    that override, which - depending on the flush order - may be the one through which it is continued. Its reads are
    under its OWN override, so they have one answer whoever continues it."""
    n = [0]

    def item(k):
        n[0] += 1
        return ["leaf", ["item", k, "sm%d" % n[0]]]

    name, val = rnd.choice([("sv0", 7), ("sv1", 7), ("at0", 7), ("sv0", True), ("sv0", None)])
    kind = "attr" if name == "at0" else "ov"
    inner = [["read", name], ["yield", item(0)], ["read", name]]
    if rnd.random() < 0.5:
        inner += [["yield", item(rnd.randrange(2))], ["read", name]]
    shared = [["with", [kind, name, val], inner]]
    if rnd.random() < 0.4:
        shared.insert(0, ["yield", ["leaf", ["none"]]])
    p1 = [["with", [kind, name, val], [["read", name], ["yield", ["list", [["leaf", ["shared", 0]]]]], ["read", name]]]]
    p2 = [["yield", item(1)], ["yield", ["tuple", [["leaf", ["shared", 0]]]]], ["read", name]]
    if rnd.random() < 0.5:
        p2.insert(1, ["yield", item(1)])
    members = [["leaf", ["call", "smp1", 1]], ["leaf", ["call", "smp2", 2]]]
    if rnd.random() < 0.3:
        members.append(["leaf", ["call", "smp3", 2]])
    if rnd.random() < 0.6:
        members.reverse()
    return {
        "nodes": [
            {"style": "asynq", "ret": "return", "body": [["read", name], ["yield", ["list", members]], ["read", name]]},
            {"style": rnd.choice(["asynq", "method"]), "ret": "return", "body": p1},
            {"style": "asynq", "ret": "return", "body": p2},
            {"style": rnd.choice(["asynq", "proxy"]), "ret": "return", "body": shared},
        ],
        "root": 0,
        "shared": [3],
        "kinds": 2,
        "faults": {},
        "flush_faults": {},
        "keep_reads_under_shared": True,
        "defaults": {"sv0": "dflt-sv0", "sv1": "dflt-sv1", "at0": "dflt-at0"},
    }


def strip_reads_under_shared(prog):
    """Remove read statements from all nodes reachable from a shared task."""
    if prog.get("keep_reads_under_shared"):
        return 0
    seen = set()
    stack = list(prog.get("shared", []))
    while stack:
        n = stack.pop()
        if n in seen:
            continue
        seen.add(n)
        for st in lang.iter_stmts(prog["nodes"][n]["body"]):
            if st[0] == "yield":
                for l in lang.iter_leaves(st[1]):
                    if l[0] == "call":
                        stack.append(l[2])
                    elif l[0] == "shared":
                        stack.append(prog["shared"][l[1]])
            elif st[0] == "sync":
                stack.append(st[2])

    def strip(block):
        out = []
        for st in block:
            if st[0] == "read":
                continue
            if st[0] == "try":
                st[1] = strip(st[1])
                st[3] = strip(st[3])
            elif st[0] == "with":
                st[2] = strip(st[2])
            out.append(st)
        return out

    for n in seen:
        prog["nodes"][n]["body"] = strip(prog["nodes"][n]["body"])
    return len(seen)
