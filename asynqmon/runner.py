"""Orchestrator: builds the two systems under test from the working tree, fans
the property's workload out to worker processes, aggregates what the monitors
observed, applies the known-findings file, writes evidence, sets the verdict.

exit 0: held on everything observed (known findings are printed, not alarms)
exit 1: a violation not listed in known_findings.json  (VIOLATION line)
exit 2: inconclusive (build failed, worker crashed, reach counters are zero)
"""
import argparse
import concurrent.futures
import hashlib
import importlib
import json
import os
import shutil
import signal
import subprocess
import sys
import tempfile
import time

from . import build as buildmod

VERIF = os.path.dirname(os.path.dirname(os.path.abspath(__file__)))
PY = "/venv/bin/python"


def load_known():
    p = os.path.join(VERIF, "known_findings.json")
    if not os.path.exists(p):
        return {"known": [], "fixed": []}
    with open(p) as f:
        return json.load(f)


def executable_lines(path):
    """Line numbers that carry code, from the compiled code objects (docstrings and blank lines excluded)."""
    import types

    try:
        with open(path) as f:
            code = compile(f.read(), path, "exec")
    except Exception:
        return set()
    out = set()
    stack = [code]
    while stack:
        c = stack.pop()
        for _s, _e, ln in c.co_lines():
            if ln is not None and ln > 0:
                out.add(ln)
        for k in c.co_consts:
            if isinstance(k, types.CodeType):
                stack.append(k)
    return out


def anchored_line_coverage(pid, linecov, pure_dir):
    """Which lines of the files the property is anchored in did this run's workload execute (pure build)."""
    files = []
    try:
        with open(os.path.join(VERIF, "properties.jsonl")) as f:
            for line in f:
                p = json.loads(line)
                if p["id"] == pid:
                    files = p["anchors"]["files"]
    except Exception:
        return {}
    out = {}
    for rel in files:
        base = os.path.basename(rel)
        path = os.path.join(pure_dir, rel)
        ex = executable_lines(path)
        hit = set(linecov.get(base, ())) & ex if ex else set(linecov.get(base, ()))
        miss = sorted(ex - hit)
        out[rel] = {"executable_lines": len(ex), "reached": len(hit), "not_reached_sample": miss[:25]}
    return out


HARD_KILL = "exit-%d" % int(__import__("signal").SIGVTALRM)


def run_worker(unit, scratch, timeout):
    uid = unit["uid"]
    up = os.path.join(scratch, "u%s.json" % uid)
    op = os.path.join(scratch, "r%s.json" % uid)
    pp = os.path.join(scratch, "p%s.txt" % uid)
    lp = os.path.join(scratch, "l%s.log" % uid)
    unit = dict(unit)
    unit["progress"] = pp
    with open(up, "w") as f:
        json.dump(unit, f)
    env = dict(os.environ)
    env["PYTHONPATH"] = unit["build_dir"] + os.pathsep + VERIF
    env["PYTHONHASHSEED"] = "0"
    env["PYTHONDONTWRITEBYTECODE"] = "1"
    for k in ("ASYNQ_VERIF_BUILD_CACHE",):
        env.pop(k, None)
    t0 = time.time()
    with open(lp, "wb") as lf:
        try:
            p = subprocess.run(
                [PY, "-m", "asynqmon.worker", up, op],
                stdout=lf,
                stderr=subprocess.STDOUT,
                env=env,
                cwd=scratch,
                timeout=timeout,
            )
            status = "exit%d" % p.returncode
        except subprocess.TimeoutExpired:
            status = "timeout"
    res = None
    if os.path.exists(op):
        with open(op) as f:
            res = json.load(f)
    prog = None
    if os.path.exists(pp):
        try:
            prog = int(open(pp).read().strip())
        except Exception:
            prog = None
    tail = ""
    try:
        with open(lp, "rb") as f:
            f.seek(0, 2)
            n = f.tell()
            f.seek(max(0, n - 3000))
            tail = f.read().decode("utf-8", "replace")
    except Exception:
        pass
    for q in (up, op, pp, lp):
        try:
            os.unlink(q)
        except OSError:
            pass
    return status, res, prog, tail, time.time() - t0


def main(argv=None):
    ap = argparse.ArgumentParser()
    ap.add_argument("prop")
    ap.add_argument("--tier", default=os.environ.get("VERIF_TIER", "quick"))
    ap.add_argument("--repo", default="/repo")
    ap.add_argument("--replay", default=None)
    ap.add_argument("--builds", default="pure,cy")
    ap.add_argument("--jobs", type=int, default=int(os.environ.get("VERIF_JOBS", "16")))
    ap.add_argument("--scale", type=float, default=float(os.environ.get("VERIF_SCALE", "1")))
    ap.add_argument("--no-evidence", action="store_true")
    args = ap.parse_args(argv)
    pid = args.prop.upper()
    tier = args.tier if args.tier in ("quick", "thorough") else "quick"
    seed = int(os.environ.get("VERIF_SEED", "0") or 0)
    t0 = time.time()
    mod = importlib.import_module("asynqmon.props." + pid.lower())
    builds = buildmod.make_builds(args.repo, want_cy="cy" in args.builds)
    scratch = tempfile.mkdtemp(prefix="asynqrun.")

    def cleanup(*_a):
        shutil.rmtree(scratch, ignore_errors=True)
        builds.cleanup()

    def on_term(signum, frame):
        cleanup()
        sys.exit(2)

    signal.signal(signal.SIGTERM, on_term)
    try:
        return _main(args, pid, tier, seed, t0, mod, builds, scratch)
    finally:
        cleanup()


def _main(args, pid, tier, seed, t0, mod, builds, scratch):
    inconclusive = []
    names = [b for b in args.builds.split(",") if b in ("pure", "cy")]
    if "cy" in names and builds.cy is None:
        inconclusive.append("cython build of the working tree failed: %s" % (builds.cy_error or "")[-1500:])
        names = [b for b in names if b != "cy"]
    if args.replay:
        with open(args.replay) as f:
            rp = json.load(f)
        units = []
        seed = int(rp.get("seed", seed))  # the recorded case is defined by the seed it was found with
        for b in names:
            u = dict(rp["unit"])
            u["build"] = b
            units.append(u)
    else:
        units = []
        for b in names:
            for u in mod.plan(tier, seed, b, args.scale):
                u = dict(u)
                u["build"] = b
                units.append(u)
    for i, u in enumerate(units):
        u["uid"] = i
        u["prop"] = pid
        u["tier"] = tier
        u["seed"] = seed
        u["build_dir"] = builds.path(u["build"])
    results = []
    unit_timeout = getattr(mod, "UNIT_TIMEOUT", {}).get(tier, 1200)
    hang_violations = []
    noise = 0

    hang_confirmed = []

    def do(u):
        out = []
        todo = [u]
        while todo:
            cur = todo.pop(0)
            if hang_confirmed:
                out.append(("skipped", cur, None))
                continue
            status, res, prog, tail, wall = run_worker(cur, scratch, cur.get("timeout", unit_timeout))
            crashed = status.startswith("exit-") and status != HARD_KILL  # died from a signal (SIGSEGV, SIGABRT ...)
            if status in ("timeout", "exit17", HARD_KILL) or crashed:
                # hang policy: find the case, re-run it alone. Alone, only the worker's own no-progress watchdog
                # (exit 17: not one bounded piece of work completed in case_timeout seconds) confirms a hang; the
                # generous outer wall-clock limit firing while the case still makes progress is inconclusive.
                if cur.get("alone"):
                    if crashed:
                        # alone, the case kills the interpreter again: a crash inside the compiled library (the
                        # harness itself is pure Python) - e.g. unbounded C-level recursion
                        out.append(("crash", cur, "(worker died: %s)\n%s" % (status, tail)))
                        hang_confirmed.append(cur["uid"])
                        continue
                    if status in ("exit17", HARD_KILL):
                        if status == HARD_KILL:
                            tail = "(killed by its CPU-time watchdog: the interpreter never got to run the no-progress handler - a loop inside compiled code)\n" + tail
                        out.append(("hang", cur, tail))
                        hang_confirmed.append(cur["uid"])
                    else:
                        out.append(("fault", cur, "case still making progress after %ss alone (slow, not hung): inconclusive\n%s" % (cur.get("timeout"), tail)))
                    continue
                if prog is None or "cases" not in cur:
                    out.append(("fault", cur, "unit timed out without progress information\n" + tail))
                    continue
                a, b = cur["cases"]
                one = dict(cur)
                one["cases"] = [prog, prog + 1]
                one["alone"] = True
                one["case_timeout"] = cur.get("alone_timeout", 90)
                one["timeout"] = max(1500, 10 * one["case_timeout"])
                one["uid"] = "%s_h%d" % (cur["uid"], prog)
                todo.append(one)
                if prog > a:
                    pass  # results of [a, prog) are lost with the worker; re-run them
                    first = dict(cur)
                    first["cases"] = [a, prog]
                    first["uid"] = "%s_a%d" % (cur["uid"], prog)
                    todo.append(first)
                if prog + 1 < b:
                    rest = dict(cur)
                    rest["cases"] = [prog + 1, b]
                    rest["uid"] = "%s_r%d" % (cur["uid"], prog)
                    todo.append(rest)
                continue
            if res is None:
                out.append(("fault", cur, "worker produced no result (%s)\n%s" % (status, tail)))
                continue
            if cur.get("alone"):
                res.setdefault("counters", {})["hang_suspects_cleared"] = 1
            out.append(("ok", cur, res))
        return out

    with concurrent.futures.ThreadPoolExecutor(max_workers=max(1, args.jobs)) as ex:
        for outs in ex.map(do, units):
            results.extend(outs)

    # ---- aggregate
    linecov = {}
    evaluations = 0
    nontrivial = set()
    counters = {}
    sets = {}
    violations = []
    faults = []
    samples = []
    per_build = {}
    for kind, u, payload in results:
        if kind == "skipped":
            counters["units_skipped_after_confirmed_hang"] = counters.get("units_skipped_after_confirmed_hang", 0) + 1
            continue
        if kind == "fault":
            faults.append("[%s] %s" % (u["build"], payload))
            continue
        if kind == "crash":
            violations.append(
                {
                    "oracle": "process-crash",
                    "mechanism": "crash",
                    "build": u["build"],
                    "detail": "re-run alone, the case killed the worker process again (%s)" % payload.splitlines()[0][:80],
                    "case": {"unit": {k: v for k, v in u.items() if k not in ("build_dir", "progress")}},
                    "stacks": payload[-2500:],
                }
            )
            continue
        if kind == "hang":
            violations.append(
                {
                    "oracle": "termination",
                    "mechanism": "hang",
                    "build": u["build"],
                    "detail": "re-run alone, the case completed no bounded piece of work (program run / sequence / cell) for %ss" % u.get("case_timeout"),
                    "case": {"unit": {k: v for k, v in u.items() if k not in ("build_dir", "progress")}},
                    "stacks": payload[-2500:],
                }
            )
            continue
        res = payload
        evaluations += res.get("evaluations", 0)
        per_build[u["build"]] = per_build.get(u["build"], 0) + res.get("evaluations", 0)
        nontrivial.update(res.get("nontrivial", []))
        for k, v in res.get("counters", {}).items():
            counters[k] = counters.get(k, 0) + v
        for k, v in res.get("sets", {}).items():
            sets.setdefault(k, set()).update(v if not isinstance(v, dict) else v.keys())
        for v in res.get("violations", []):
            v.setdefault("build", u["build"])
            if "case" in v and "unit" not in v["case"]:
                base = {k: w for k, w in u.items() if k not in ("build_dir", "progress", "uid")}
                base.update(v["case"])
                v["case"] = {"unit": base}
            violations.append(v)
        for fn, lines in (res.get("linecov") or {}).items():
            linecov.setdefault(fn, set()).update(lines)
        faults.extend("[%s] %s" % (u["build"], f) for f in res.get("faults", []))
        if len(samples) < 3:
            samples.extend(res.get("samples", [])[: 3 - len(samples)])

    for k, v in sets.items():
        counters["distinct_" + k] = len(v)
    if faults:
        inconclusive.append("%d harness fault(s); first: %s" % (len(faults), faults[0][:3000]))
    if not args.replay:
        for msg in mod.reach(counters, tier):
            inconclusive.append("reach: " + msg)

    known = load_known()
    kset = {(k["property"], k["mechanism"]): k for k in known.get("known", [])}
    fresh = []
    seen_known = {}
    for v in violations:
        key = (pid, v.get("mechanism", v.get("oracle")))
        if key in kset:
            seen_known.setdefault(key, []).append(v)
        else:
            fresh.append(v)
    for key, vs in seen_known.items():
        print("KNOWN-FINDING: property=%s %s [%s; seen %d time(s) in this run]" % (pid, kset[key]["what"], key[1], len(vs)))

    # ---- replay files for fresh violations (deduplicated by mechanism)
    exit_code = 0
    printed = set()
    if fresh:
        rdir = os.path.join(VERIF, "replays", pid)
        os.makedirs(rdir, exist_ok=True)
        for v in fresh:
            mech = v.get("mechanism", v.get("oracle"))
            h = hashlib.sha1(json.dumps(v, sort_keys=True, default=repr).encode()).hexdigest()[:12]
            path = os.path.join(rdir, "%s.json" % h)
            if (mech, v.get("build")) in printed:
                continue
            printed.add((mech, v.get("build")))
            rec = {"property": pid, "tier": tier, "seed": seed, "violation": v, "unit": v.get("case", {}).get("unit")}
            with open(path, "w") as f:
                json.dump(rec, f, indent=1, default=repr)
            print("VIOLATION property=%s replay=%s" % (pid, path))
            print("  oracle=%s mechanism=%s build=%s" % (v.get("oracle"), mech, v.get("build")))
            det = v.get("detail")
            if isinstance(det, dict):
                det = {k: w for k, w in det.items() if k not in ("program", "base_program", "shrunk_program") or (k == "shrunk_program" and len(json.dumps(w)) < 700)}
            print("  detail: %s" % (json.dumps(det, default=repr)[:900],))
        exit_code = 1
    elif inconclusive:
        exit_code = 2
    for msg in inconclusive:
        print("INCONCLUSIVE property=%s: %s" % (pid, msg))

    anchored = anchored_line_coverage(pid, linecov, builds.pure) if linecov else {}
    if os.environ.get("VERIF_COV_OUT") and linecov:
        # tools/union_cov.py: which library lines does NO check reach
        os.makedirs(os.environ["VERIF_COV_OUT"], exist_ok=True)
        with open(os.path.join(os.environ["VERIF_COV_OUT"], "%s.json" % pid), "w") as f:
            json.dump({"pure_dir": builds.pure, "lines": {k: sorted(v) for k, v in linecov.items()}}, f)
    wall = time.time() - t0
    ev = {
        "property_id": pid,
        "tier": tier,
        "seed": seed,
        "level": mod.LEVEL,
        "coverage": dict(
            {
                "evaluations": evaluations,
                "distinct_nontrivial": len(nontrivial),
                "rule": mod.RULE,
                "samples": samples,
                "builds": per_build,
                "observed": {k: counters[k] for k in sorted(counters)},
                "units": len(units),
                "anchored_source_lines_reached_pure_build": anchored,
            },
            **(mod.extra_coverage(counters, tier) if hasattr(mod, "extra_coverage") else {})
        ),
        "assumptions": getattr(mod, "ASSUMPTIONS", []),
        "wall_s": round(wall, 2),
        "violations": len(fresh),
        "known_findings_seen": sorted("%s" % (k[1],) for k in seen_known),
        "verdict": {0: "held on everything observed", 1: "violated", 2: "inconclusive"}[exit_code],
        "inconclusive_reasons": inconclusive,
    }
    if not args.no_evidence and not args.replay:
        os.makedirs(os.path.join(VERIF, "evidence"), exist_ok=True)
        with open(os.path.join(VERIF, "evidence", "%s.json" % pid), "w") as f:
            json.dump(ev, f, indent=1, default=repr)
    print(
        "%s %s seed=%d: %s; evaluations=%d distinct_nontrivial=%d builds=%s wall=%.1fs"
        % (pid, tier, seed, ev["verdict"], evaluations, len(nontrivial), per_build, wall)
    )
    keys = sorted(counters)
    print("  observed: " + ", ".join("%s=%s" % (k, counters[k]) for k in keys)[:3000])
    return exit_code


if __name__ == "__main__":
    sys.exit(main())
