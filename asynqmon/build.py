"""Build the two systems under test (pure-Python and Cython-compiled) from the
*current working tree* of the repository, in a private scratch directory.

Nothing here trusts /repo/asynq/*.so (git-ignored artefacts that shadow the .py
sources): `pure` copies only *.py, `cy` copies sources and compiles them.
"""
import hashlib
import os
import shutil
import subprocess
import sys
import tempfile

PY = "/venv/bin/python"


def _source_files(repo):
    out = []
    for root, dirs, files in os.walk(os.path.join(repo, "asynq")):
        dirs[:] = [d for d in dirs if d not in ("__pycache__", "build")]
        for f in files:
            if f.endswith((".py", ".pxd", ".pyi", ".typed")):
                out.append(os.path.join(root, f))
    for f in ("setup.py", "README.rst", "pyproject.toml"):
        p = os.path.join(repo, f)
        if os.path.exists(p):
            out.append(p)
    return sorted(out)


def tree_hash(repo):
    h = hashlib.sha256()
    for p in _source_files(repo):
        h.update(os.path.relpath(p, repo).encode())
        h.update(b"\0")
        with open(p, "rb") as f:
            h.update(f.read())
        h.update(b"\0")
    return h.hexdigest()[:20]


def _copy_tree(repo, dst):
    for p in _source_files(repo):
        rel = os.path.relpath(p, repo)
        q = os.path.join(dst, rel)
        os.makedirs(os.path.dirname(q), exist_ok=True)
        shutil.copy2(p, q)


class Builds(object):
    """pure: <dir>/pure ; cy: <dir>/cy (None if the Cython build failed)."""

    def __init__(self, base, pure, cy, cy_error, owned):
        self.base = base
        self.pure = pure
        self.cy = cy
        self.cy_error = cy_error
        self.owned = owned

    def path(self, name):
        return {"pure": self.pure, "cy": self.cy}[name]

    def cleanup(self):
        if self.owned and self.base and os.path.isdir(self.base):
            shutil.rmtree(self.base, ignore_errors=True)


def _build_into(repo, base, want_cy=True, log=None):
    pure = os.path.join(base, "pure")
    os.makedirs(pure)
    _copy_tree(repo, pure)
    # pure build: only .py (no setup.py needed, but harmless)
    cy = None
    cy_error = None
    if want_cy:
        cy = os.path.join(base, "cy")
        os.makedirs(cy)
        _copy_tree(repo, cy)
        env = dict(os.environ)
        env["CFLAGS"] = "-O1 -g0"
        env.pop("PYTHONPATH", None)
        try:
            r = subprocess.run(
                [PY, "setup.py", "-q", "build_ext", "--inplace", "-j", "16"],
                cwd=cy,
                env=env,
                stdout=subprocess.PIPE,
                stderr=subprocess.STDOUT,
                timeout=900,
            )
            ok = r.returncode == 0 and any(
                f.startswith("scheduler.") and f.endswith(".so")
                for f in os.listdir(os.path.join(cy, "asynq"))
            )
            if not ok:
                cy_error = r.stdout.decode("utf-8", "replace")[-4000:]
        except Exception as e:  # timeout etc.
            cy_error = "build failed: %r" % (e,)
        shutil.rmtree(os.path.join(cy, "build"), ignore_errors=True)
        for f in os.listdir(os.path.join(cy, "asynq")):
            if f.endswith(".c"):
                os.unlink(os.path.join(cy, "asynq", f))
        if cy_error is not None:
            cy_failed = cy
            cy = None
            shutil.rmtree(cy_failed, ignore_errors=True)
    return pure, cy, cy_error


def make_builds(repo="/repo", want_cy=True):
    """Build from the working tree. With ASYNQ_VERIF_BUILD_CACHE=<dir> a build
    keyed by the content hash of every source file is reused (developer
    convenience only; registered commands never set it)."""
    cache = os.environ.get("ASYNQ_VERIF_BUILD_CACHE")
    if cache:
        key = tree_hash(repo)
        base = os.path.join(cache, key)
        marker = os.path.join(base, "OK")
        if os.path.exists(marker):
            cy = os.path.join(base, "cy")
            err = None
            if not os.path.isdir(cy):
                cy = None
                err = open(marker).read() or "cached cython failure"
            return Builds(base, os.path.join(base, "pure"), cy, err, owned=False)
        tmp = tempfile.mkdtemp(prefix="asynqbuild.", dir=cache)
        pure, cy, err = _build_into(repo, tmp, want_cy)
        with open(os.path.join(tmp, "OK"), "w") as f:
            f.write(err or "")
        try:
            os.rename(tmp, base)
        except OSError:
            shutil.rmtree(tmp, ignore_errors=True)
        cy2 = os.path.join(base, "cy")
        return Builds(
            base,
            os.path.join(base, "pure"),
            cy2 if os.path.isdir(cy2) else None,
            err,
            owned=False,
        )
    base = tempfile.mkdtemp(prefix="asynqverif.")
    try:
        pure, cy, err = _build_into(repo, base, want_cy)
    except BaseException:
        shutil.rmtree(base, ignore_errors=True)
        raise
    return Builds(base, pure, cy, err, owned=True)


if __name__ == "__main__":
    b = make_builds(sys.argv[1] if len(sys.argv) > 1 else "/repo")
    print(b.base, b.pure, b.cy, (b.cy_error or "")[-500:])
