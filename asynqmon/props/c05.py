"""C05 - each batch is flushed once, highest priority first; every item is answered."""
import random

from .. import gen, lang, ref, tl

ID = "C05"
LEVEL = "exploration"
RULE = (
    "seeded Tasklang programs over 2-4 batch kinds (plus DebugBatch) with skewed item counts, get_priority() "
    "policies (default = most items, per-kind permutations, per-batch hashes with ties, fewest-first, all-tied), flush "
    "bodies that succeed, set item errors, skip items, raise part-way (Exception/BaseException), create new items, or themselves call asynq code synchronously (re-entering the scheduler from inside a flush). "
    "Profile Y (yield-only): at every on_before_batch_flush the flushed batch's priority must equal the maximum over "
    "all batches holding an item some reachable task is waiting for (harness knowledge, not scheduler state). "
    "Profile S (sync re-entry, and items whose value() is taken synchronously so that scheduled batches get flushed behind the scheduler's back): a flush while the innermost awaited computation (top level or nested sync call) has "
    "already finished is a violation. Both: per batch at most one before event / one flush body, never empty or "
    "finished; before/after strictly paired; every item completed exactly once, by its own batch's flush, with what "
    "that flush set, and that is what the task received (reference fed with per-flush outcomes). Profile E: the "
    "scheduler's flush() itself is made to raise (batch flushed by a before-subscriber, flush() override raising, "
    "_try_switch_active_batch raising) and the after event must still fire exactly once. "
    "distinct = program hash (+ evil mode); non-trivial = at least 2 flushes."
    " At every task step and before every flush all pending batches are looked at (state queries, str) and must stay as they were. Every third run is made with the debug option KEEP_DEPENDENCIES on (tasks keep their dependency lists): the same oracles apply."
)
RULE += (
    " Item mode hit: the request is answered when it is created (a local-cache hit), still travels in its batch "
    "and counts for the batch's priority; no flush may answer it again."
)
ASSUMPTIONS = ["the pending-batch set is derived from what tasks yielded, i.e. exact for yield-only programs"]
UNIT_TIMEOUT = {"quick": 150, "thorough": 2400}

BASE = dict(
    p_shared=0.3,
    p_item_fault=0.14,
    # "hit": the request is answered on the spot when it is created (a local-cache hit) and still travels in its batch
    item_fault_modes=["error", "unset", "baseerror", "falsyerror", "hit", "hit", "hit"],
    p_spawn=0.04,
    p_flush_fault=0.15,
    p_wrap=0.6,
    kind_skew=True,
    max_nodes=14,
    w_leaf=dict(call=5, item=7, err=0.1, junk=0.03, lazy=0.6, again=0.4, dbg=0.5, const=0.6),
    lazy_modes=["ok", "sync", "sync", "raise"],
    p_ctx_sync=0.15,
    p_try_raise=0.2,
)
# (orphans: requests created and never awaited - fire-and-forget writes - still travel in their batch and count
#  for its priority)
Y = [gen.profile(kinds=k, **dict(BASE, w_stmt=dict(sync=0, orphan=0.9, raise_=0.1, try_=1.4))) for k in (2, 3, 4)]
S = [gen.profile(kinds=k, **dict(BASE, w_stmt=dict(sync=2.5, orphan=0.3, raise_=0.1, try_=1.2, syncitem=1.2, cancelbatch=0.5))) for k in (2, 3)]
# profile F: flush bodies that re-enter the scheduler (scheduler-driven flushes only: no direct item.value() flushes,
# whose combination with a re-entering flush body is outside the stated quantifier - see DESIGN.md section 9)
F = [gen.profile(kinds=k, **dict(BASE, p_nestedsync=0.12, w_stmt=dict(sync=1.5, orphan=0.2, raise_=0.1, try_=1.2, syncitem=0))) for k in (2, 3)]
HOWS = ["call", "value", "yielded", "yielded_value"]


def _shrunk(prog, how, pol, cs, mons, oracle):
    small, runs = tl.shrink_for(prog, how, pol, cs, mons, oracle)
    return {"shrunk_program": small, "shrink_runs": runs}


def plan(tier, seed, build, scale):
    n = int((2000 if tier == "quick" else 28000) * scale)
    per = max(1, n // (10 if tier == "quick" else 40))
    units = []
    a = 0
    while a < n:
        units.append({"cases": [a, min(n, a + per)], "nsched": 4 if tier == "quick" else 8})
        a += per
    return units


def run_unit(unit, progress):
    res = tl.new_result()
    res["sets"] = {"flushseq": set()}
    c = res["counters"]

    def inc(k, n=1):
        c[k] = c.get(k, 0) + n

    a, b = unit["cases"]
    for i in range(a, b):
        progress(i)
        cs = tl.case_seed(unit["seed"], ID, i)
        sel = i % 7
        yield_only = sel < 3
        prof = Y[sel] if yield_only else (S[sel - 3] if sel < 5 else F[sel - 5])
        prog = gen.generate(cs, prof)
        rnd = random.Random(cs ^ 0xC05)
        exp_rrt = None
        if not tl.needs_observed_items(prog):
            try:
                exp_rrt = ref.evaluate(prog)
            except lang.HarnessFault:
                inc("ref_budget_skips")
                continue
        mons = ("flushbook_prio", "refeq", "resume", "peek") if yield_only else ("flushbook", "refeq", "resume", "peek")
        pols = tl.policies(prog, rnd, unit.get("nsched", 4), exhaustive_perms=unit["tier"] == "thorough")
        bad = False
        maxfl = 0
        for pi, pol in enumerate(pols):
            how = HOWS[(i + pi) % 4]
            # every third run keeps the tasks' dependency lists (debug option KEEP_DEPENDENCIES): which batch is
            # flushed when must not depend on it
            keep = (i + pi) % 3 == 2
            try:
                rt, out, exp, rrt = tl.execute(prog, how, pol, cs, mons, rrt_exp=exp_rrt, keep_deps=keep)
                if keep:
                    inc("runs_with_KEEP_DEPENDENCIES")
            except lang.HarnessFault as e:
                if "never flushed" in str(e) or "budget" in str(e):
                    inc("ref_skips")
                    continue
                raise
            res["evaluations"] += 1
            tl.harvest(rt, c)
            nfl = sum(1 for ev in rt.log if ev[0] == "flush_body")
            maxfl = max(maxfl, nfl)
            inc("flushes", nfl)
            inc("flush_bodies_that_called_asynq_synchronously", rt.nested_flush_calls)
            inc("batches_cancelled_by_user_code_while_scheduled", rt.cancelled_batches)
            inc("spawned_items_joined_fresh_batch", sum(1 for ev in rt.log if ev[0] == "spawned" and ev[1] != ev[2]))
            for ev in rt.log:
                if ev[0] == "spawned" and ev[1] == ev[2]:
                    rt.violation("item-created-during-flush-joined-the-flushing-batch", {"batch": ev[1]})
            if prog.get("flush_faults"):
                inc("runs_with_failing_flush_bodies")
            if not yield_only:
                # sync calls that returned while an outer batch was still pending
                depth = 0
                for ev in rt.log:
                    if ev[0] == "sync_exit":
                        inc("sync_calls_returned")
                if any(hb.items and not hb.is_flushed() for hb in rt.batches):
                    pass
                inc("sync_returns_with_outer_batch_pending", count_sync_pending(rt))
            if rt.violations and not bad:
                bad = True
                for v in rt.violations[:3]:
                    res["violations"].append(
                        {
                            "oracle": v["oracle"],
                            "mechanism": v["oracle"],
                            "detail": dict({"how": how, "prio": pol, "violation": v["detail"], "program": prog}, **_shrunk(prog, how, pol, cs, mons, v["oracle"])),
                            "case": {"cases": [i, i + 1]},
                        }
                    )
        # profile E: the scheduler's flush() itself raises
        if i % 4 == 0 and maxfl >= 1:
            for mode in ("preflush", "override", "switch"):
                rt = None
                from .. import harness, monitors as M

                rt = harness.HarnessRT(prog, prio=None, seed=cs)
                rt.evil = (mode, rnd.randrange(max(1, min(maxfl, 4))))
                book = M.FlushBook(rt, False)
                rt.before_probes.append(book.on_before)
                rt.after_probes.append(book.on_after)
                out = rt.run(HOWS[i % 4])
                res["evaluations"] += 1
                if rt.evil_fired:
                    inc("flush_call_made_to_raise_" + mode)
                    nb = sum(book.before.values())
                    na = sum(book.after.values())
                    if nb != na or book.open:
                        res["violations"].append(
                            {
                                "oracle": "after-event-missing-when-flush-raises",
                                "mechanism": "after-event-missing-when-flush-raises",
                                "detail": {"mode": mode, "before": nb, "after": na, "program": prog, "evil": rt.evil},
                                "case": {"cases": [i, i + 1]},
                            }
                        )
        inc("programs")
        if maxfl >= 2:
            res["nontrivial"].append(lang.struct_hash(prog))
        if len(res["samples"]) < 1 and maxfl >= 2 and len(prog["nodes"]) <= 6:
            res["samples"].append({"program": prog, "flushes": maxfl})
    res["sets"] = {}
    return res


def count_sync_pending(rt):
    """Sync calls that returned while a batch created before/during them was
    still pending (so 'no flush after completion' actually had something to
    refrain from)."""
    n = 0
    flushed = set()
    created = []
    for ev in rt.log:
        if ev[0] == "flush_body":
            flushed.add(ev[1])
        elif ev[0] == "sync_exit":
            for hb in rt.batches:
                pass
    # cheap approximation from the end state of every sync_exit: replay the log
    pending_now = set()
    for ev in rt.log:
        if ev[0] == "yield":
            for kind, inst in ev[3]:
                if kind == "item":
                    it = rt.items.get(inst)
                    if it is not None:
                        pending_now.add(it.bid)
        elif ev[0] == "flush_body":
            pending_now.discard(ev[1])
        elif ev[0] == "sync_exit":
            if pending_now:
                n += 1
    return n


def reach(c, tier):
    out = []
    for k in (
        "flush_decisions_with_distinct_priorities",
        "sync_returns_with_outer_batch_pending",
        "runs_with_failing_flush_bodies",
        "n_item_checks",
        "spawned_items_joined_fresh_batch",
        "flush_bodies_that_called_asynq_synchronously",
        "batches_cancelled_by_user_code_while_scheduled",
        "flush_call_made_to_raise_preflush",
        "flush_call_made_to_raise_override",
        "flush_call_made_to_raise_switch",
    ):
        if not c.get(k):
            out.append("%s is zero" % k)
    return out
