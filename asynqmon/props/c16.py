"""C16 - computations on different threads never interfere."""
import itertools
import random
import sys
import threading
import time

from .. import gen, lang, tl
from ..lang import UserErr, exc_desc

ID = "C16"
LEVEL = "exploration"
RULE = (
    "2, 4, 8 and 16 threads start together on a barrier and each loops over its own seeded Tasklang programs "
    "(harness batch items of 3 kinds, DebugBatchItems, contexts, scoped values, sync re-entry, failures), a "
    "hand-off round in which every thread computes with .value() a task object that the next thread built but did not start "
    "(alone: built and computed on the same thread), a deduplicate scenario in which every thread calls the same functions (default key and caller-supplied keygetter) with the same arguments, and a deduplicated task built on one thread, computed on another, after which the key must be free again, batch-free programs driven "
    "through asyncio.run(fn.asyncio()) in one thread out of three per round (the others must never see asyncio mode), and - in separate "
    "process-wide configurations - COLLECT_PERF_STATS with profiler.flush() after every round (no reset at thread "
    "start). sys.setswitchinterval(1e-6) plus time.sleep(0) at harness hook points (task steps, flush bodies, context "
    "callbacks, get_priority) force switches where they can really occur. Oracles: per thread and round, the digest "
    "(outcome, complete event log incl. flush compositions and context events, deduplicated body executions, number and "
    "owner of profiler entries) must equal the digest of the same loop run alone in a fresh thread; every body step, "
    "flush, priority call and context callback runs on its creator's thread, sees its own thread's scheduler and "
    "active task; DebugBatch objects and deduplicated tasks are never shared between threads. Evidence reports observed "
    "thread switches between adjacent events and distinct interleaving signatures. "
    "distinct = (thread count, configuration, round, interleaving signature); non-trivial = a round during which at "
    "least one switch to another thread occurred."
)
RULE += (
    " Every round also runs a 'redirty' phase: each thread dirties the shared deduplication key three times "
    "with yields in between, while the other threads have the same call in flight; its second request must "
    "return its own in-flight task and its body runs exactly three times. Every round also runs a computation "
    "that abandons a scheduled batch (a task failed by a NonAsyncContext while blocked, its batch of lower "
    "priority than what its parent still needs) followed, on the same scheduler, by an ordinary one."
)
ASSUMPTIONS = [
    "OS thread interleavings are sampled (tiny switch interval, injected yields, repetition), not enumerated",
    "ThreadSanitizer / helgrind are not applicable to CPython-level logical state under the GIL (DESIGN.md section 6)",
]
UNIT_TIMEOUT = {"quick": 400, "thorough": 3000}

PROFILE = gen.profile(
    p_shared=0.3,
    p_item_fault=0.06,
    p_wrap=0.5,
    max_nodes=8,
    kinds=3,
    dbg_names=1,
    w_stmt=dict(sync=1.0, syncitem=0.4, raise_=0.2, try_=1.0, with_=1.5, read=0.8, orphan=0.2),
    w_leaf=dict(call=6, item=6, err=0.2, junk=0.03, lazy=0.3, again=0.3, dbg=1.5, const=0.6),
    lazy_modes=["ok", "ok", "raise"],
    ctxs=["actx", "ov", "attr"],
    max_instances=50,
)
ASYNCIO_PROFILE = gen.profile(
    p_shared=0.0,
    p_result=0.0,
    p_future_result=0.0,
    p_same_object=0.0,  # a coroutine object cannot be awaited twice: re-yielding is not part of what .asyncio() promises
    p_item_fault=0.0,
    p_wrap=0.0,
    max_nodes=7,
    kinds=1,
    exc_cls=["exc"],
    try_kinds=["exc", "none"],
    w_stmt=dict(sync=0, raise_=0.4, try_=1.5, with_=0, ret=0.0, orphan=0, read=0, probe=0.0),
    w_leaf=dict(call=8, item=0, const=2.5, none=1.2, err=0, lazy=0, again=0, junk=0, dbg=0, constexc=0),
    styles=["asynq", "method", "proxy", "pure"],
    plain_styles=["plain"],
    max_instances=40,
)
PRIO = ("kindonly", [5, 9, -3])
SWITCH_LOG = []
DBG_OWNER = {}
DEDUP_OWNER = {}
EXCHANGE = {}
_state = {}


def handoff_prog(seed, tid):
    prog = gen.generate(tl.case_seed(seed, "C16h", tid), PROFILE)
    root = prog["nodes"][prog.get("root", 0)]
    if root["style"] not in ("asynq", "method", "proxy", "classmethod", "staticmethod", "explicit"):
        root["style"] = "asynq"  # a generator task: nothing of the body runs when the task object is built
    return prog


def build_handoff(seed, owner):
    """Builds - on the calling thread - the root task object of `owner`'s hand-off program, not started."""
    from .. import harness

    prog = handoff_prog(seed, owner)
    rt = harness.HarnessRT(prog, prio=PRIO, seed=seed)
    root = lang.Frame(prog.get("root", 0), (), None)
    rt.prebuilt = harness.make_task(rt.style_of(root.nid), rt, root)
    return rt


def plan(tier, seed, build, scale):
    units = [{"mode": "generations", "n": 300 if tier == "quick" else 5000, "cases": [0, 1]}]
    rounds = int((12 if tier == "quick" else 150) * scale) or 1
    for nthreads in (2, 4, 8, 16):
        for perf in (False, True):
            if tier == "quick" and perf and nthreads in (2, 16):
                continue
            units.append({"threads": nthreads, "perf": perf, "rounds": rounds, "cases": [nthreads * 2 + int(perf), nthreads * 2 + int(perf) + 1], "timeout": 380 if tier == "quick" else 2900, "case_timeout": 200})
    return units


def fns():
    if "dd" in _state:
        return _state
    from asynq import asynq as A
    from asynq.tools import deduplicate
    from .. import harness

    @deduplicate()
    @A()
    def dd(x):
        st = _state["tls"].cur
        st["dd_exec"].append(threading.get_ident())
        v = yield harness.HItem(st["rt"], 0, "dd", ("dd", x))
        return ("dd", x, threading.get_ident())

    # the same with a caller-supplied key function (the thread must still be part of the scope)
    @deduplicate(keygetter=lambda args, kwargs: ("k", args[0] if args else kwargs["x"]))
    @A()
    def ddk(x, salt=0):
        st = _state["tls"].cur
        st["ddk_exec"].append(threading.get_ident())
        v = yield harness.HItem(st["rt"], 0, "ddk", ("ddk", x))
        return ("ddk", x, threading.get_ident())

    # a deduplicated task built on one thread and computed on another
    @deduplicate()
    @A()
    def ddh(x):
        st = _state["tls"].cur
        st["ddh_exec"].append(x)
        v = yield harness.HItem(st["rt"], 0, "ddh", ("ddh", x))
        return ("ddh", x)

    _state["ddh"] = ddh

    @A()
    def dd_round(x):
        t1 = dd.asynq(x)
        t2 = dd.asynq(x=x)
        t3 = ddk.asynq(x)
        t4 = ddk.asynq(x, salt=1)
        st = _state["tls"].cur
        st["dd_tasks"] = (t1, t2, t3, t4)
        v = yield t1, t2, t3, t4
        return v

    @A()
    def dd_redirty(x):
        """Every thread keeps invalidating the key while the others have a call with the same arguments in flight:
        dirty() is scoped to the calling thread like the registrations themselves."""
        import time

        st = _state["tls"].cur
        out = []
        for rep in range(3):
            dd.dirty(x)
            t1 = dd.asynq(x)
            time.sleep(0)
            yield harness.HItem(st["rt"], 0, "ddw%d" % rep, ("ddw", x, rep))
            time.sleep(0)
            t2 = dd.asynq(x=x)
            if t2 is not t1:
                st["dd_split"] += 1
            out.append((yield t1, t2))
        return out

    _state["dd"] = dd
    _state["dd_round"] = dd_round
    _state["dd_redirty"] = dd_redirty
    _state["tls"] = threading.local()
    return _state


def install_probes(rt, tid, viol, jitter):
    import asynq
    from asynq import scheduler as S
    from .. import harness, monitors as M

    me = threading.get_ident()

    def own(where):
        SWITCH_LOG.append(tid)
        if asynq.is_asyncio_mode() != bool(getattr(rt, "asyncio_expected", False)):
            viol.append(("asyncio-mode-of-another-thread-visible", {"where": where, "thread": tid, "is_asyncio_mode": asynq.is_asyncio_mode()}))
        if threading.get_ident() != me:
            viol.append(("ran-on-foreign-thread", {"where": where, "thread": tid}))
        if rt.sched is not None and S.get_scheduler() is not rt.sched:
            viol.append(("saw-another-threads-scheduler", {"where": where, "thread": tid}))
        if jitter():
            time.sleep(0)

    rt.step_probes.append(lambda rt_, fr, k: own("step"))
    rt.step_probes.append(M.active_task_probe)
    rt.flush_probes.append(lambda rt_, b, items: own("flush"))
    rt.ctx_probes.append(lambda rt_, ctx, what: own("ctx"))
    orig_prio = rt.priority_of

    def prio(batch):
        own("priority")
        return orig_prio(batch)

    rt.priority_of = prio

    def resume_probe(rt_, fr, k, leaves, exc, got):
        for l in leaves:
            if l.kind == "dbg":
                b = l.obj.batch
                o = DBG_OWNER.setdefault(id(b), (tid, b))
                if o[0] != tid:
                    viol.append(("debug-batch-shared-between-threads", {"thread": tid, "owner": o[0]}))

    rt.resume_probes.append(resume_probe)


def loop(tid, nthreads, rounds, seed, perf, out, barrier=None):
    """The work of one thread. Appends one digest per round to out."""
    import asynq
    from asynq import profiler
    from asynq import scheduler as S
    from .. import harness

    F = fns()
    rnd = random.Random(seed * 1000 + tid)
    jr = random.Random(seed * 7 + tid)
    progs = [gen.generate(tl.case_seed(seed, "C16p", tid * 100 + j), PROFILE) for j in range(3)]
    if barrier is not None:
        barrier.wait()
    # a computation in which a task is failed by a NonAsyncContext while it waits for a batch (of lower priority
    # than the one its parent still needs, so nobody flushes it): that batch stays scheduled when the computation ends and has to be forgotten there and then, whatever other threads are doing
    abandon_prog = {
        "nodes": [
            {"style": "asynq", "ret": "return", "body": [["try", [["yield", ["list", [["leaf", ["call", "ab1", 1]], ["leaf", ["item", 1, "ab-own"]]]]]], "base", [], False]]},
            {"style": "asynq", "ret": "return", "body": [["with", ["nonasync", "abn"], [["yield", ["tuple", [["leaf", ["item", 0, "ab-a"]], ["leaf", ["item", 0, "ab-b"]], ["leaf", ["item", 0, "ab-c"]]]]]]]]},
        ],
        "root": 0,
        "shared": [],
        "kinds": 2,
        "faults": {},
        "flush_faults": {},
        "defaults": {"sv0": "dflt-sv0", "sv1": "dflt-sv1", "at0": "dflt-at0"},
    }
    for r in range(rounds):
        tl.tick()
        viol = []
        digest = []
        mark = len(SWITCH_LOG)
        for pi, prog in enumerate(progs):
            rt = harness.HarnessRT(prog, prio=PRIO, seed=seed)
            rt.label = "T%d" % tid
            install_probes(rt, tid, viol, lambda: jr.random() < 0.3)
            o = rt.run(["call", "value", "yielded"][(r + pi) % 3])
            digest.append((repr(o[:2]), tl.digest(rt.log)))
            for v in rt.violations[:2]:
                viol.append((v["oracle"], v["detail"]))
        # hand-off: the task object computed here was built (not started) by the next thread; alone, by this one
        src = (tid + 1) % nthreads
        if barrier is not None:
            EXCHANGE[tid] = build_handoff(seed, tid)
            barrier.wait()
            rt = EXCHANGE[src]
        else:
            rt = build_handoff(seed, src)
        rt.label = "T%d" % tid
        install_probes(rt, tid, viol, lambda: jr.random() < 0.3)
        o = rt.run("prebuilt")
        digest.append(("handoff", repr(o[:2]), tl.digest(rt.log)))
        for v in rt.violations[:2]:
            viol.append((v["oracle"], v["detail"]))
        if barrier is not None:
            barrier.wait()
        # one thread in three also drives a batch-free program through asyncio in this round
        if (r + tid) % 3 == 0:
            import asyncio

            aprog = gen.generate(tl.case_seed(seed, "C16a", tid), ASYNCIO_PROFILE)
            for node in aprog["nodes"]:
                node["ret"] = "return"
            rt = harness.HarnessRT(aprog, seed=seed)
            rt.label = "T%d" % tid
            rt.track_running = False
            rt.asyncio_expected = True
            rt.step_probes.append(lambda rt_, fr, k: (SWITCH_LOG.append(tid), jr.random() < 0.3 and time.sleep(0)))
            root = lang.Frame(0, (), None)
            try:
                v = asyncio.run(harness.asyncio_entry(rt.style_of(0), rt, root))
                ao = ("val", repr(v)[:80])
            except BaseException as e:
                ao = ("exc", exc_desc(e))
            if asynq.is_asyncio_mode():
                viol.append(("asyncio-mode-left-on-after-asyncio-run", {"thread": tid}))
            digest.append(("asyncio", repr(ao), tl.digest(rt.log)))
        # a computation that abandons a scheduled batch, then - on the SAME scheduler - an ordinary one
        S.reset()
        for j, prog in enumerate((abandon_prog, progs[r % 3])):
            rt = harness.HarnessRT(prog, prio=PRIO, seed=seed)
            rt.label = "T%d" % tid
            install_probes(rt, tid, viol, lambda: jr.random() < 0.3)
            try:
                o = rt.run("call", fresh_scheduler=False)
            except lang.HarnessFault as e:
                o = ("fault", repr(e))
            digest.append(("after-abandoned-batch", j, repr(o[:2]), tl.digest(rt.log)))
        S.reset()
        # deduplicate: same function, same arguments in every thread
        st = {"dd_exec": [], "ddk_exec": [], "ddh_exec": [], "rt": None, "dd_tasks": None, "dd_split": 0}
        F["tls"].cur = st
        rt = harness.HarnessRT({"nodes": [], "kinds": 1}, prio=PRIO)
        rt.label = "T%d" % tid
        st["rt"] = rt
        S.reset()
        rt.attach()
        # requests that are refused when they are made (an unhashable argument, too many arguments): the caller
        # gets its TypeError and nobody else is affected
        refused = 0
        for bad_args in (([1, 2],), (1, 2, 3, 4), ({"k": 1},)):
            try:
                F["dd"].asynq(*bad_args)
            except TypeError:
                refused += 1
        if refused != 3:
            viol.append(("malformed-deduplicated-request-was-not-refused", {"thread": tid, "refused": refused}))
        try:
            v = F["dd_round"](7)
        except BaseException as e:
            v = ("exc", exc_desc(e))
        finally:
            rt.detach()
        me = threading.get_ident()
        if st["dd_exec"] != [me]:
            viol.append(("deduplicated-body-executions", {"thread": tid, "executions_in_this_thread": len(st["dd_exec"]), "foreign": [x for x in st["dd_exec"] if x != me][:3]}))
        if st["ddk_exec"] != [me]:
            viol.append(("deduplicated-body-executions", {"thread": tid, "keygetter": "custom", "executions_in_this_thread": len(st["ddk_exec"]), "foreign": [x for x in st["ddk_exec"] if x != me][:3]}))
        if isinstance(v, tuple) and len(v) == 4 and (v[0] != ("dd", 7, me) or v[1] != ("dd", 7, me) or v[2] != ("ddk", 7, me) or v[3] != ("ddk", 7, me)):
            viol.append(("deduplicated-result-from-another-thread", {"thread": tid, "value": repr(v)[:160]}))
        if st["dd_tasks"] is not None:
            for t in st["dd_tasks"]:
                o = DEDUP_OWNER.setdefault(id(t), (tid, t))
                if o[0] != tid:
                    viol.append(("deduplicated-task-shared-between-threads", {"thread": tid, "owner": o[0]}))
        digest.append(("dd", repr(v)[:60].replace(str(me), "ME")))
        # the key is invalidated by every thread again and again while the others have it in flight
        st["dd_exec"] = []
        st["dd_split"] = 0
        S.reset()
        rt.attach()
        try:
            v = F["dd_redirty"](7)
        except BaseException as e:
            v = ("exc", exc_desc(e))
        finally:
            rt.detach()
        if st["dd_split"] or st["dd_exec"] != [me] * 3 or v != [(("dd", 7, me), ("dd", 7, me))] * 3:
            viol.append(
                (
                    "in-flight-deduplicated-call-forgotten-without-own-dirty",
                    {"thread": tid, "second_call_got_a_different_task": st["dd_split"], "executions_in_this_thread": len(st["dd_exec"]), "expected_executions": 3, "value": repr(v)[:200]},
                )
            )
        digest.append(("ddr", repr(v).replace(str(me), "ME")[:80]))
        # hand-off of a deduplicated task: built here, computed by the previous thread; afterwards the key is free
        # again on the thread that built it
        st["ddh_exec"] = []
        S.reset()
        rt.attach()
        try:
            if barrier is not None:
                mine = F["ddh"].asynq(("h", tid))
                EXCHANGE[("ddh", tid)] = mine
                barrier.wait()
                other = EXCHANGE[("ddh", src)]
            else:
                # alone: the same amount of work on this thread (two bodies), nothing handed over
                mine = None
                other = F["ddh"].asynq(("h", src))
            try:
                hv = other.value()
            except BaseException as e:
                hv = ("exc", exc_desc(e))
            if barrier is not None:
                barrier.wait()
            again = F["ddh"].asynq(("h", tid))
            fresh = again is not mine and not again.is_computed()
            if not fresh:
                viol.append(("finished-deduplicated-task-handed-out-again", {"thread": tid, "same_object": again is mine, "computed": again.is_computed()}))
            try:
                av = again.value()
            except BaseException as e:
                av = ("exc", exc_desc(e))
        finally:
            rt.detach()
        digest.append(("ddh", repr(hv), repr(av), fresh))
        # profiler buffer
        if perf:
            stats = profiler.flush()
            foreign = [s.get("name", "") for s in stats if ("#T" in s.get("name", "") and ("#T%d" % tid) not in s.get("name", "").replace("#T%d" % tid, "#ME"))]
            mine = 0
            bad = []
            for s in stats:
                nm = s.get("name", "")
                if "#T" in nm:
                    import re

                    owners = set(re.findall(r"#T(\d+)", nm))
                    if owners - {str(tid)}:
                        bad.append(nm[:80])
                    else:
                        mine += 1
            if bad:
                viol.append(("profiler-entries-of-another-thread", {"thread": tid, "foreign_entries": len(bad), "example": bad[0]}))
            digest.append(("profiler", len(stats)))
        sig = tuple(SWITCH_LOG[mark : mark + 400])
        switched = any(x != tid for x in sig)
        out.append({"digest": digest, "viol": viol, "switched": switched, "sig": hash(sig) & 0xFFFFFFFF})


def run_unit(unit, progress):
    import asynq
    from asynq.tools import DeduplicateDecorator

    res = tl.new_result()
    c = res["counters"]
    if unit.get("mode") == "generations":
        from .. import generations

        progress(0)
        viol, stats = generations.run_generations(unit["n"])
        res["evaluations"] = stats["generations"]
        c["sequential_thread_generations"] = stats["generations"]
        c["thread_idents_reused"] = stats["thread_idents_reused"]
        res["nontrivial"] = [hash(("gen", i)) & 0xFFFFFFFFFFFF for i in range(stats["thread_idents_reused"])]
        for v in viol[:2]:
            res["violations"].append({"oracle": v[0], "mechanism": v[0] + "/sequential-threads", "detail": v[1], "case": dict(unit)})
        res["samples"].append(dict(stats))
        return res
    progress(unit["cases"][0])
    n = unit["threads"]
    rounds = unit["rounds"]
    seed = unit["seed"]
    perf = unit["perf"]
    old_perf = asynq.debug.options.COLLECT_PERF_STATS
    asynq.debug.options.COLLECT_PERF_STATS = perf
    old_si = sys.getswitchinterval()
    fns()
    try:
        # ---- each loop alone, in a fresh thread (fresh thread-local state), one after another
        solo = {}
        for tid in range(n):
            out = []
            th = threading.Thread(target=loop, args=(tid, n, rounds, seed, perf, out))
            th.start()
            th.join()
            solo[tid] = out
        # ---- all together
        del SWITCH_LOG[:]
        DBG_OWNER.clear()
        DEDUP_OWNER.clear()
        sys.setswitchinterval(1e-6)
        barrier = threading.Barrier(n)
        conc = {tid: [] for tid in range(n)}
        crashed = []

        def guarded(tid):
            try:
                loop(tid, n, rounds, seed, perf, conc[tid], barrier)
            except BaseException as e:
                import traceback

                crashed.append((tid, repr(e), traceback.format_exc()[-800:]))
                try:
                    barrier.abort()
                except Exception:
                    pass

        ths = [threading.Thread(target=guarded, args=(tid,)) for tid in range(n)]
        for th in ths:
            th.start()
        for th in ths:
            th.join()
    finally:
        sys.setswitchinterval(old_si)
        asynq.debug.options.COLLECT_PERF_STATS = old_perf
    switches = sum(1 for a, b in zip(SWITCH_LOG, SWITCH_LOG[1:]) if a != b)
    c["events_logged"] = len(SWITCH_LOG)
    c["thread_switches_between_adjacent_events"] = switches
    sigs = set()
    for tid in range(n):
        for r, rec in enumerate(conc[tid]):
            res["evaluations"] += 1
            c["rounds"] = c.get("rounds", 0) + 1
            c["dirty_calls_racing_with_other_threads_in_flight_calls"] = c.get("dirty_calls_racing_with_other_threads_in_flight_calls", 0) + 3
            sigs.add(rec["sig"])
            if rec["switched"]:
                c["rounds_interleaved_with_other_threads"] = c.get("rounds_interleaved_with_other_threads", 0) + 1
                res["nontrivial"].append(hash((n, perf, tid, r, rec["sig"])) & 0xFFFFFFFFFFFF)
            viol = list(rec["viol"])
            if r < len(solo[tid]) and rec["digest"] != solo[tid][r]["digest"]:
                a, b = rec["digest"], solo[tid][r]["digest"]
                k = next((j for j in range(min(len(a), len(b))) if a[j] != b[j]), min(len(a), len(b)))
                what = a[k][0] if k < len(a) and a[k][0] in ("handoff", "asyncio", "dd", "ddr", "ddh", "profiler", "after-abandoned-batch") else "program %d" % k
                viol.append(("digest-differs-from-solo-run", {"thread": tid, "round": r, "part": what, "concurrent": repr(a[k] if k < len(a) else None)[:120], "alone": repr(b[k] if k < len(b) else None)[:120]}))
            for v in viol[:2]:
                if len(res["violations"]) < 8:
                    res["violations"].append(
                        {
                            "oracle": v[0],
                            "mechanism": v[0] + ("/perf-stats" if perf and "profiler" in v[0] + repr(v[1].get("part", "")) else ""),
                            "detail": {"threads": n, "collect_perf_stats": perf, "violation": v[1]},
                            "case": dict(unit),
                        }
                    )
        if len(conc[tid]) != rounds:
            res["faults"].append("thread %d finished %d of %d rounds" % (tid, len(conc[tid]), rounds))
    for tid in range(n):
        for rec in solo[tid]:
            if rec["viol"]:
                res["faults"].append("solo run of thread %d already violates: %r" % (tid, rec["viol"][0]))
                break
    for cr in crashed:
        res["faults"].append("thread %d crashed: %s\n%s" % cr)
    c["distinct_interleaving_signatures_here"] = len(sigs)
    res["sets"] = {"interleavings": sorted(sigs)}
    c["units_threads_%d%s" % (n, "_perf" if perf else "")] = 1
    DeduplicateDecorator.tasks.clear()
    res["samples"].append({"threads": n, "collect_perf_stats": perf, "rounds_per_thread": rounds, "thread_switches_between_adjacent_events": switches, "first_40_event_owners": SWITCH_LOG[:40]})
    return res


def reach(c, tier):
    out = []
    if c.get("thread_switches_between_adjacent_events", 0) < 200:
        out.append("fewer than 200 thread switches observed (%s)" % c.get("thread_switches_between_adjacent_events"))
    if not c.get("thread_idents_reused"):
        out.append("no thread identifier was reused by the sequential generations (nothing learnt from them)")
    for k in ("rounds_interleaved_with_other_threads", "distinct_interleavings", "units_threads_8", "units_threads_4_perf"):
        if not c.get(k):
            out.append("%s is zero" % k)
    return out
