"""C07 - context activations nest; scoped overrides read and restore as in sync code."""
import random

from .. import gen, lang, ref, tl

ID = "C07"
LEVEL = "exploration"
RULE = (
    "seeded Tasklang programs with nested and concurrent overrides of the SAME scoped values / attributes "
    "(AsyncScopedValue.override, async_override) plus logging AsyncContexts, in several concurrently pending tasks, "
    "reads before/inside/after blocks and in child tasks, back-to-back blocks in one step, failures at any step "
    "(raises, failing items/futures), sync re-entry, several batch kinds; one third of the programs also share tasks "
    "between parents that override the same values differently - reads are then removed from everything reachable from a "
    "shared task (only there the sequential answer is not unique), while reads in the parents and their other children "
    "remain. One program in five comes from a structured 'diamond' family: a pending task with its own override awaited by 2-3 parents that override the same value differently, each with a private reading child. One program in ten gives some logging contexts a resume()/pause() that raises on its 2nd/3rd call (then without the reference: nesting and restoration only). All get_priority() policies, both builds. Oracles: every read "
    "equals the sequential reference's dynamic override stack (override values are unique per site, so a read names the "
    "override that produced it); the thread's global resume/pause sequence of logging contexts is well parenthesised; "
    "after the computation ends (value or exception) every scoped value and attribute is back at its default. "
    "distinct = program hash; non-trivial = at least one read under >= 1 override and at least 1 flush."
)
RULE += (
    " One program in ten is an 'overlap' program (see C01); one in ten a 'revisit' program. One unit drives "
    "tools.call_with_context(ctx, fn, ...) over five kinds of fn (generator, plain body, two async_proxy forms "
    "that read when CALLED, bound method) x scoped value / attribute override x caller inside an override of "
    "its own x nested call_with_context x position in the yield x fn failing: fn reads the inner value in all "
    "of its code, its siblings and its caller do not."
)
ASSUMPTIONS = ["runaway-recursion aborts are outside this property's quantifier (see C08)"]
UNIT_TIMEOUT = {"quick": 150, "thorough": 2400}

COMMON = dict(
    p_equal_values=0.3,
    p_shared=0.0,
    p_item_fault=0.06,
    p_wrap=0.5,
    max_nodes=12,
    block_depth=4,
    sv_names=["sv0", "sv0", "sv1", "at0"],
    w_stmt=dict(with_=4.5, read=4.0, raise_=0.4, try_=1.3, ret=0.4, orphan=0, sync=1.0),
    w_leaf=dict(call=6, item=5, err=0.3, junk=0.03, lazy=0.3, again=0.3, dbg=0.2, const=0.8),
    lazy_modes=["ok", "sync", "sync", "raise"],
    p_ctx_sync=0.15,
    p_try_raise=0.4,
    ctxs=["ov", "ov", "ov", "attr", "actx"],
    kinds=2,
)
PROFILES = [
    gen.profile(**COMMON),
    gen.profile(**dict(COMMON, max_width=5, w_struct=dict(leaf=2, tuple=2, list=5, dict=1))),
    # shared tasks (awaited by several parents that override the same values differently); reads are then removed
    # from every node reachable from a shared task, because only there the sequential answer is not unique
    gen.profile(**dict(COMMON, p_shared=1.0, p_reuse=0.05, max_nodes=10)),
    # the same, concentrated: one scoped value that every override fights over, small programs, many reads,
    # synchronous waits on the shared task
    gen.profile(
        **dict(
            COMMON,
            p_shared=1.0,
            p_syncshared=0.5,
            p_reuse=0.0,
            max_nodes=7,
            max_stmts=5,
            sv_names=["sv0"],
            ctxs=["ov", "ov", "ov", "actx"],
            w_stmt=dict(with_=5.0, read=5.0, raise_=0.2, try_=0.6, ret=0.2, orphan=0, sync=1.2),
            w_leaf=dict(call=7, item=5, err=0.1, junk=0.0, lazy=0.1, again=0.2, dbg=0.0, const=0.5),
        )
    ),
]


def diamond_program(rnd):
    """A structured family the random generator rarely hits: one pending task S (with or without its own
    override of X, suspended on a batch) awaited by 2-3 parents that override the SAME value differently,
    each parent also awaiting a private child that reads X, and reading X itself afterwards."""
    site = [0]

    def st(prefix):
        site[0] += 1
        return "%s%d" % (prefix, site[0])

    def item(kind=None):
        site[0] += 1
        return ["leaf", ["item", rnd.randrange(2) if kind is None else kind, "k%d" % site[0]]]

    val = [200]

    def ov(body, name="sv0"):
        val[0] += 1
        v = val[0]
        if rnd.random() < 0.25:
            v = rnd.choice([1, True, 1.0])
        return ["with", ["ov", name, v], body]

    nparents = rnd.choice([2, 2, 3])
    nodes = [None]  # root
    # shared task S
    s_body = [["yield", item()] for _ in range(rnd.choice([1, 1, 2]))]
    if rnd.random() < 0.75:
        s_body = [ov(s_body)]
    if rnd.random() < 0.3:
        s_body.append(["yield", item()])
    parents = []
    for i in range(nparents):
        # private reader child
        r_body = [["read", "sv0"]]
        if rnd.random() < 0.6:
            r_body.append(["yield", item()])
            r_body.append(["read", "sv0"])
        parents.append({"reader": r_body})
    # layout: 0 root, 1..n parents, then readers, S last (higher id than everything referencing it)
    n = nparents
    sid_node = 1 + 2 * n
    prog_nodes = [{"style": "asynq", "ret": "return", "body": []} for _ in range(sid_node + 1)]
    for i in range(n):
        pid = 1 + i
        rid = 1 + n + i
        prog_nodes[rid]["body"] = parents[i]["reader"]
        members = [["leaf", ["shared", 0]], ["leaf", ["call", st("c"), rid]]]
        if rnd.random() < 0.4:
            members.append(item())
        rnd.shuffle(members)
        inner = []
        if rnd.random() < 0.4:
            inner.append(["read", "sv0"])
        if rnd.random() < 0.25:
            inner.append(["syncshared", 0])
            inner.append(["read", "sv0"])
            inner.append(["yield", ["leaf", ["call", st("c"), rid]]])
        else:
            inner.append(["yield", [rnd.choice(["list", "tuple"]), members]])
        inner.append(["read", "sv0"])
        body = [ov(inner)]
        if rnd.random() < 0.35:
            # first wait synchronously for the (possibly in-flight) shared task, THEN open the override and block in it
            body.insert(0, ["syncshared", 0])
        if rnd.random() < 0.5:
            body.append(["read", "sv0"])
        if rnd.random() < 0.3:
            body = [ov(body, rnd.choice(["sv0", "sv1"]))]
        prog_nodes[pid]["body"] = body
    prog_nodes[sid_node]["body"] = s_body
    root_members = [["leaf", ["call", st("c"), 1 + i]] for i in range(n)]
    if rnd.random() < 0.3:
        root_members.append(item())
    prog_nodes[0]["body"] = [["read", "sv0"], ["yield", ["list", root_members]], ["read", "sv0"]]
    for node in prog_nodes:
        node["style"] = rnd.choice(["asynq", "asynq", "method", "pure", "proxy"])
    return {
        "nodes": prog_nodes,
        "root": 0,
        "shared": [sid_node],
        "kinds": 2,
        "faults": {},
        "flush_faults": {},
        "defaults": {"sv0": "dflt-sv0", "sv1": "dflt-sv1", "at0": "dflt-at0"},
    }


MONITORS = ("refeq", "restore", "nesting", "stale")
MONITORS_F = ("restore", "nesting", "stale")
HOWS = ["call", "value", "yielded", "yielded_value"]


def _shrunk(prog, how, pol, cs, oracle):
    small, runs = tl.shrink_for(prog, how, pol, cs, MONITORS, oracle)
    return {"shrunk_program": small, "shrink_runs": runs}


def plan(tier, seed, build, scale):
    n = int((2000 if tier == "quick" else 90000) * scale)
    per = max(1, n // (10 if tier == "quick" else 40))
    units = []
    a = 0
    while a < n:
        units.append({"cases": [a, min(n, a + per)], "nsched": 3 if tier == "quick" else 6})
        a += per
    units.append({"mode": "cwc", "cases": [0, 1]})
    return units


def run_cwc(res, inc, progress):
    """tools.call_with_context(ctx, fn, *args): fn runs - ALL of it, also what an eager (async_proxy) fn does when it is
    called - under ctx, its siblings in the same yield do not. Expected reads are those of the sequential program
    `with ctx: return fn(*args)`."""
    import itertools
    from asynq import asynq, async_proxy, AsyncScopedValue, async_override, ConstFuture, scheduler as asynq_scheduler
    from asynq.batching import BatchBase, BatchItemBase
    from asynq.tools import call_with_context

    class B(BatchBase):
        def _try_switch_active_batch(self):
            if cur[0] is self:
                cur[0] = None

        def _flush(self):
            for it in self.items:
                it.set_value(None)

    cur = [None]

    def item():
        if cur[0] is None or cur[0].is_flushed():
            cur[0] = B()
        return BatchItemBase(cur[0])

    class Holder(object):
        attr = "outer"

    sv = AsyncScopedValue("outer")
    h = Holder()

    def read():
        return (sv.get(), h.attr)

    class Boom(Exception):
        pass

    @asynq()
    def f_gen(fail):
        r1 = read()
        yield item()
        r2 = read()
        yield item()
        if fail:
            raise Boom((r1, r2, read()))
        return (r1, r2, read())

    @asynq()
    def f_plain(fail):
        if fail:
            raise Boom((read(),))
        return (read(),)

    @async_proxy()
    def f_proxy_const(fail):
        if fail:
            raise Boom((read(),))
        return ConstFuture((read(),))

    @asynq()
    def _tail(first, fail):
        yield item()
        if fail:
            raise Boom((first, read()))
        return (first, read())

    @async_proxy()
    def f_proxy_task(fail):
        return _tail.asynq(read(), fail)

    class Obj(object):
        @asynq()
        def m(self, fail):
            r1 = read()
            yield item()
            if fail:
                raise Boom((r1, read()))
            return (r1, read())

    fns = [("generator", f_gen), ("plain body", f_plain), ("async_proxy -> ConstFuture", f_proxy_const), ("async_proxy -> task", f_proxy_task), ("bound method", Obj().m)]

    @asynq()
    def sibling():
        r1 = read()
        yield item()
        return (r1, read())

    def ctx_of(kind, val):
        if kind == "scoped":
            return sv.override(val)
        return async_override(h, "attr", val)

    def want(kind, val, base):
        return (val, base[1]) if kind == "scoped" else (base[0], val)

    n = 0
    for (fname, fn), kind, mid, nested, pos, fail, how in itertools.product(fns, ("scoped", "attr"), (False, True), (False, True), (0, 1, 2), (False, True), ("call", "value")):
        progress(n)
        n += 1
        okind = "attr" if kind == "scoped" else "scoped"

        @asynq()
        def root():
            def go():
                if nested:
                    # ctx2 (the OTHER variable) inside ctx: both in force for fn
                    cw = call_with_context.asynq(ctx_of(kind, "inner"), call_with_context, ctx_of(okind, "inner2"), fn, fail)
                else:
                    cw = call_with_context.asynq(ctx_of(kind, "inner"), fn, fail)
                sibs = [sibling.asynq(), sibling.asynq()]
                sibs.insert(pos, cw)
                return tuple(sibs)

            caught = None
            got = None
            if mid:
                with ctx_of(kind, "mid"):
                    try:
                        got = yield go()
                    except Boom as e:
                        caught = e.args[0]
                    inside = read()
            else:
                try:
                    got = yield go()
                except Boom as e:
                    caught = e.args[0]
                inside = read()
            yield item()
            return got, caught, inside, read()

        try:
            out = root() if how == "call" else root.asynq().value()
        except BaseException as e:
            out = ("raised", repr(e)[:200])
        res["evaluations"] += 1
        inc("call_with_context_computations")
        base = ("outer", "outer")
        around = want(kind, "mid", base) if mid else base
        in_fn = want(kind, "inner", around)
        if nested:
            in_fn = want(okind, "inner2", in_fn)
        problems = []
        if out[0] == "raised" if isinstance(out[0], str) else False:
            problems.append(("computation raised", out[1]))
        else:
            got, caught, inside, after = out
            fn_reads = caught if fail else (got[pos] if got is not None else None)
            if fn_reads is None or any(r != in_fn for r in fn_reads):
                problems.append(("reads of fn (%s)" % fname, {"observed": repr(fn_reads), "expected_each": repr(in_fn)}))
            if not fail:
                for k, sr in enumerate(got):
                    if k != pos and any(r != around for r in sr):
                        problems.append(("reads of a sibling in the same yield", {"observed": repr(sr), "expected_each": repr(around)}))
            if inside != around:
                problems.append(("read by the caller after the yield", {"observed": repr(inside), "expected": repr(around)}))
            if after != base:
                problems.append(("read by the caller after its own block", {"observed": repr(after), "expected": repr(base)}))
            inc("call_with_context_reads_compared", (len(fn_reads) if fn_reads else 0) + 6)
        if read() != base:
            problems.append(("values after the computation", repr(read())))
            sv.set("outer")
            h.attr = "outer"
            asynq_scheduler.reset()
        for what, d in problems[:1]:
            if len(res["violations"]) < 3:
                res["violations"].append(
                    {
                        "oracle": "call_with_context-reads",
                        "mechanism": "call_with_context-reads",
                        "detail": {"what": what, "observed": d, "fn": fname, "context": kind, "caller_inside_an_override": mid, "nested_call_with_context": nested, "position_in_yield": pos, "fn_fails": fail, "how": how},
                        "case": {"mode": "cwc", "cases": [0, 1]},
                    }
                )
        res["nontrivial"].append(hash((fname, kind, mid, nested, pos, fail)) & 0xFFFFFFFFFFFF)
    return res


def run_unit(unit, progress):
    res = tl.new_result()
    c = res["counters"]

    def inc(k, n=1):
        c[k] = c.get(k, 0) + n

    if unit.get("mode") == "cwc":
        return run_cwc(res, inc, progress)
    a, b = unit["cases"]
    for i in range(a, b):
        progress(i)
        cs = tl.case_seed(unit["seed"], ID, i)
        if i % 5 == 4:
            prog = diamond_program(random.Random(cs))
            inc("diamond_programs")
        elif i % 10 == 3:
            prog = gen.revisit_program(random.Random(cs))
            inc("revisit_programs")
        elif i % 10 == 8:
            # an override with the very value already in force, in a task awaited by two parents
            prog = gen.sameval_program(random.Random(cs))
            inc("programs_overriding_with_the_value_already_in_force")
        elif i % 10 == 6:
            # overrides with non-lexical lifetimes: the one that is left is not the most recently entered one
            prog = gen.overlap_program(random.Random(cs))
            inc("programs_leaving_overrides_in_another_order_than_entered")
        else:
            prog = gen.generate(cs, PROFILES[i % 4])
        if prog.get("shared"):
            gen.strip_reads_under_shared(prog)
            inc("programs_with_shared_tasks")
        rnd = random.Random(cs ^ 0xC07)
        faulty = False
        if i % 10 == 7:
            # logging contexts whose own resume()/pause() raise on a later call, next to overrides in the same
            # tasks: no reference then, but nesting and "everything restored afterwards" still apply
            names = sorted(set(st[1][1] for node in prog["nodes"] for st in lang.iter_stmts(node["body"]) if st[0] == "with" and st[1][0] == "actx"))
            frnd = random.Random(cs ^ 0xF07)
            if names:
                prog["ctx_faults"] = {}
                for nm in frnd.sample(names, min(len(names), frnd.randint(1, 2))):
                    prog["ctx_faults"][nm] = [frnd.choice(["resume", "resume", "pause"]), frnd.randint(2, 3)]
                faulty = True
                inc("programs_with_failing_context_callbacks")
        try:
            exp_rrt = ref.evaluate(prog)
        except lang.HarnessFault:
            inc("ref_budget_skips")
            continue
        exp, rrt = exp_rrt
        # reads under overrides (from the reference)
        under = 0
        under2 = 0
        for fr in rrt.frames.values():
            for r in fr.received:
                if r[0] == "read" and r[2][0] != "str":
                    under += 1
        pols = tl.policies(prog, rnd, unit.get("nsched", 3), exhaustive_perms=unit["tier"] == "thorough")
        bad = False
        flushed = False
        for pi, pol in enumerate(pols):
            how = HOWS[(i + pi) % 4]
            mons = MONITORS_F if faulty else MONITORS
            if any(st[0] == "ctxopen" for node in prog["nodes"] for st in lang.iter_stmts(node["body"])):
                # the program itself does not nest its contexts: "resumed last, paused first" does not apply to it
                mons = tuple(m for m in mons if m != "nesting")
            rt, out, _e, _r = tl.execute(prog, how, pol, cs, mons, rrt_exp=None if faulty else exp_rrt)
            if faulty and any(ev[0] == "ctx_fault" for ev in rt.log):
                inc("runs_where_a_context_callback_raised")
            res["evaluations"] += 1
            tl.harvest(rt, c)
            if any(ev[0] == "flush_body" for ev in rt.log):
                flushed = True
            inc("reads_compared", sum(1 for f in rt.frames.values() for r in f.received if r[0] == "read"))
            c["max_nesting_depth"] = max(c.get("max_nesting_depth", 0), getattr(rt, "max_nesting", 0))
            if pi == 0:
                # overriding tasks pending across a flush
                pend = 0
                live = set()
                for ev in rt.log:
                    if ev[0] == "flush_before":
                        pend = max(pend, len(live))
                if out[0] == "exc":
                    inc("computations_ending_in_exception")
            if rt.violations and not bad:
                bad = True
                for v in rt.violations[:3]:
                    res["violations"].append(
                        {
                            "oracle": v["oracle"],
                            "mechanism": v["oracle"],
                            "detail": dict({"how": how, "prio": pol, "violation": v["detail"], "program": prog}, **_shrunk(prog, how, pol, cs, v["oracle"])),
                            "case": {"cases": [i, i + 1]},
                        }
                    )
        inc("programs")
        inc("reads_under_an_override", under)
        if under and flushed:
            res["nontrivial"].append(lang.struct_hash(prog))
        if len(res["samples"]) < 1 and under >= 2 and flushed and len(prog["nodes"]) <= 5:
            res["samples"].append({"program": prog, "expected": tl.short(exp, 400)})
    return res


def reach(c, tier):
    out = []
    for k in ("call_with_context_reads_compared", "reads_compared", "reads_under_an_override", "programs_with_shared_tasks", "diamond_programs", "n_nesting_events", "n_restore_checks", "computations_ending_in_exception", "runs_where_a_context_callback_raised"):
        if not c.get(k):
            out.append("%s is zero" % k)
    if c.get("max_nesting_depth", 0) < 2:
        out.append("no nested activations observed")
    return out
