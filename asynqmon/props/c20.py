"""C20 - debug, dump and profiling options never change behaviour."""
import os
import random
import tempfile

from .. import gen, lang, ref, tl

ID = "C20"
LEVEL = "exploration"
RULE = (
    "seeded Tasklang programs (sync re-entry, items whose value() is taken synchronously, failures, several batch "
    "kinds with unique priorities so that the default trace is deterministic, DebugBatchItems, contexts, scoped "
    "reads; one program in twelve yields dicts / lists / tuples of 241-520 futures, wider than the 240 characters at which dumps truncate) are run under the default debug options and then under option subsets: each of the 19 boolean options "
    "alone (flipped from its default), all DUMP_* on, everything flipped, and seeded random subsets; with "
    "DUMP_SCHEDULER_STATE the dump interval is 0 so the dump code really runs; with COLLECT_PERF_STATS a scripted clock "
    "assigned to asynq.scheduler.utime reports per-call elapsed times from 1 microsecond to 3 hours. Diagnostics go to a "
    "captured file descriptor. One program in three makes every one of its runs on a brand-new thread (fresh thread-local scheduler and profiler state, no profiler.reset() first). Oracle: the complete harness event log (every task step, yield, resumption, flush "
    "composition and order, context pause/resume, value received, caught exception, and whether get_active_task() is the running task at every step and after every nested sync call) and the outcome must be identical "
    "to the default run, on both builds. Reach: per option, runs in which it produced diagnostic output / profiler "
    "entries. distinct = (program hash, option subset); non-trivial = at least 2 task instances and 1 flush."
)
RULE += (
    " One program in twelve makes a synchronous asynq call that trips a lowered MAX_TASK_STACK_SIZE and is "
    "recovered from by the caller; one in twelve runs with the scheduler's own flush() call raising (the "
    "after-flush event must still fire under every option). A quarter of the programs use a batch priority "
    "derived from the items' content (undefined for an empty batch); one in twelve waits synchronously for a "
    "task already on the scheduler's stack; a third of the flushing programs get one more run in which the "
    "options are switched on at the first scheduler flush instead of before the run. In one program in five "
    "every task's first argument prints with per-cent signs (names and dumps are built from repr() of the "
    "arguments). In one program in three tasks call profiler.flush() after each synchronous call they make. "
    "Task styles partial (functools.partial over a generator function) and callable (instance with __call__) "
    "occur in the programs. In one program in ten the tasks' first argument is nested deeper than the "
    "recursion limit (repr() raises RecursionError)."
)
ASSUMPTIONS = [
    "programs whose default-option trace is not reproducible (priority ties) are skipped and counted",
    "MAX_TASK_STACK_SIZE and the truncation/limit options are not boolean switches and are left at their defaults",
]
UNIT_TIMEOUT = {"quick": 300, "thorough": 2400}

BOOL_OPTIONS = [
    "DUMP_PRE_ERROR_STATE",
    "DUMP_EXCEPTIONS",
    "DUMP_SCHEDULE_TASK",
    "DUMP_CONTINUE_TASK",
    "DUMP_SCHEDULE_BATCH",
    "DUMP_FLUSH_BATCH",
    "DUMP_DEPENDENCIES",
    "DUMP_COMPUTED",
    "DUMP_NEW_TASKS",
    "DUMP_YIELD_RESULTS",
    "DUMP_QUEUED_RESULTS",
    "DUMP_CONTEXTS",
    "DUMP_SYNC",
    "DUMP_STACK",
    "DUMP_SCHEDULER_STATE",
    "DUMP_SYNC_CALLS",
    "COLLECT_PERF_STATS",
    "ENABLE_COMPLEX_ASSERTIONS",
    "KEEP_DEPENDENCIES",
]
DEFAULTS = {k: False for k in BOOL_OPTIONS}
DEFAULTS["DUMP_PRE_ERROR_STATE"] = True
DEFAULTS["ENABLE_COMPLEX_ASSERTIONS"] = True

PROFILE = gen.profile(
    p_shared=0.4,
    p_syncshared=0.5,
    p_item_fault=0.08,
    p_flush_fault=0.08,
    p_wrap=0.5,
    max_nodes=10,
    kinds=3,
    dbg_names=1,
    w_stmt=dict(sync=1.5, syncitem=1.0, raise_=0.3, try_=1.2, with_=1.5, read=0.6, orphan=0.3),
    w_leaf=dict(call=6, item=6, err=0.3, junk=0.05, lazy=0.4, again=0.4, dbg=0.6, const=0.8),
    lazy_modes=["ok", "sync", "sync", "raise"],
    p_ctx_sync=0.15,
    ctxs=["actx", "ov", "attr"],
    max_instances=80,
    # also task functions that are not function objects (functools.partial, an instance with __call__): names
    # and dumps are built from what the library can find out about the callable
    styles=["asynq", "asynq", "asynq", "pure", "method", "classmethod", "staticmethod", "proxy", "partial"],
    plain_styles=["plain", "plain", "pureplain", "callable"],
)
PRIO = ("kindonly", [5, 9, -3])
ELAPSED = [1, 7, 1000, 10**6, 6 * 10**7, 2_200_000_000, 3 * 3600 * 10**6]


def plan(tier, seed, build, scale):
    n = int((700 if tier == "quick" else 12000) * scale)
    per = max(1, n // (12 if tier == "quick" else 48))
    units = []
    a = 0
    while a < n:
        units.append({"cases": [a, min(n, a + per)], "nsub": 3 if tier == "quick" else 6})
        a += per
    return units


def subsets_for(i, rnd, nsub):
    """Option settings (dict name->bool) to try for program i."""
    out = []
    # each single option flipped, spread over programs
    single = BOOL_OPTIONS[i % len(BOOL_OPTIONS)]
    s = dict(DEFAULTS)
    s[single] = not DEFAULTS[single]
    out.append(("single:" + single, s))
    if i % 7 == 0:
        s = dict(DEFAULTS)
        for k in BOOL_OPTIONS:
            if k.startswith("DUMP_"):
                s[k] = True
        out.append(("all-dumps", s))
    if i % 7 == 3:
        out.append(("everything-flipped", {k: not v for k, v in DEFAULTS.items()}))
    while len(out) < nsub:
        s = {k: (rnd.random() < 0.4) != DEFAULTS[k] if rnd.random() < 0.5 else DEFAULTS[k] for k in BOOL_OPTIONS}
        out.append(("random", s))
    return out


class Clock(object):
    def __init__(self, rnd, big):
        self.t = 10**9
        self.rnd = rnd
        self.big = big
        self.calls = 0
        self.max_delta = 0

    def __call__(self):
        self.calls += 1
        d = self.rnd.choice(ELAPSED if self.big else ELAPSED[:4])
        self.max_delta = max(self.max_delta, d)
        self.t += d
        return self.t


def trace_of(rt, out):
    return [("outcome", repr(out[:2]))] + [ev for ev in rt.log]


def _active_probe(rt, fr, k):
    from asynq import scheduler as S

    t = S.get_active_task()
    mine = rt.task_of_frame.get(id(fr))
    if mine is None and t is not None and t.args and t.args[-1] is fr:
        rt.task_of_frame[id(fr)] = t
        rt.keep.append(fr)
        mine = t
    rt.emit("active_task_is_me", fr.path, k, t is mine and t is not None)


def _after_sync_probe(rt, fr, ok):
    from asynq import scheduler as S

    t = S.get_active_task()
    mine = rt.task_of_frame.get(id(fr))
    rt.emit("active_task_after_sync_call_is_me", fr.path, mine is not None and t is mine)
    if rt.prog.get("harvest_inside"):
        # the task collects the profiler's entries of the synchronous sub-computation it has just made, before its own
        # step ends (what is returned is only counted)
        from asynq import profiler

        rt.n_harvested = getattr(rt, "n_harvested", 0) + len(profiler.flush())


def wide_program(rnd):
    """Yields and results far wider than the length at which the dump helpers truncate what they print (240)."""
    n = rnd.choice([241, 260, 300, 520])

    def leaf(j):
        if j % 50 == 7:
            return ["leaf", ["item", j % 2, "wk%d" % j]]
        if j % 60 == 11:
            return ["leaf", ["call", "wc%d" % j, 1]]
        return ["leaf", ["const", j]]

    shape = rnd.choice(["dict", "dict", "list", "tuple"])
    if shape == "dict":
        big = ["dict", [["d%d" % j, leaf(j)] for j in range(n)]]
    else:
        big = [shape, [leaf(j) for j in range(n)]]
    other = ["dict", [["e%d" % j, ["leaf", ["const", -j]]] for j in range(n)]]
    return {
        "nodes": [
            {"style": "asynq", "ret": rnd.choice(["return", "result"]), "body": [["yield", big], ["yield", ["leaf", ["item", 0, "wlast"]]], ["yield", other]]},
            {"style": "asynq", "ret": "return", "body": [["yield", ["leaf", ["item", 1, "wchild"]]]]},
        ],
        "root": 0,
        "shared": [],
        "kinds": 2,
        "faults": {},
        "flush_faults": {},
        "defaults": {"sv0": "dflt-sv0", "sv1": "dflt-sv1", "at0": "dflt-at0"},
    }


def overflow_program(rnd):
    """A task makes a synchronous asynq call that runs away and is stopped by the (lowered) MAX_TASK_STACK_SIZE
    guard; the caller catches the RuntimeError and carries on with ordinary batched work."""
    n = [0]

    def item(kind):
        n[0] += 1
        return ["leaf", ["item", kind, "ok%d" % n[0]]]

    runaway = ["leaf", [rnd.choice(["runaway", "runaway", "lazyrunaway"]), rnd.choice([150, 400]), rnd.choice([0, 0, 1, 2, 3])]]
    deep = [["yield", runaway]]
    if rnd.random() < 0.5:
        deep.insert(0, ["yield", item(1)])
    caller = [
        ["yield", item(0)],
        ["try", [["sync", "so1", 2, rnd.choice(["call", "value"])]], "exc", ([["yield", item(rnd.randrange(2))]] if rnd.random() < 0.6 else []), []],
        ["yield", ["tuple", [item(0), item(1)]]],
        ["read", "sv0"],
    ]
    if rnd.random() < 0.5:
        caller = [["with", rnd.choice([["actx", "oc"], ["ov", "sv0", 77]]), caller]]
    top = rnd.random() < 0.5
    nodes = [
        {"style": "asynq", "ret": "return", "body": caller if top else [["yield", ["list", [["leaf", ["call", "oc1", 1]], item(1)]]], ["yield", item(0)]]},
        {"style": rnd.choice(["asynq", "method"]), "ret": "return", "body": [["yield", item(1)]] if top else caller},
        {"style": "asynq", "ret": "return", "body": deep},
    ]
    return {
        "nodes": nodes,
        "root": 0,
        "shared": [],
        "kinds": 2,
        "faults": {},
        "flush_faults": {},
        "max_stack": rnd.choice([40, 90]),
        "defaults": {"sv0": "dflt-sv0", "sv1": "dflt-sv1", "at0": "dflt-at0"},
    }


def syncshared_program(rnd):
    """A running task waits synchronously (.value()) for a task object that an ancestor has already handed to the
    scheduler in the same yield but that has not started yet."""
    n = [0]

    def item(k):
        n[0] += 1
        return ["leaf", ["item", k, "ss%d" % n[0]]]

    waiter = [["syncshared", 0], ["yield", item(rnd.randrange(2))]]
    if rnd.random() < 0.5:
        waiter.insert(0, ["yield", item(1)])
    if rnd.random() < 0.4:
        waiter = [["with", rnd.choice([["actx", "ssc"], ["ov", "sv0", 55]]), waiter], ["read", "sv0"]]
    shared = [["yield", item(0)]] + ([["yield", item(1)]] if rnd.random() < 0.5 else [])
    members = [["leaf", ["call", "ssw", 1]], ["leaf", ["shared", 0]]]
    if rnd.random() < 0.5:
        members.append(["leaf", ["call", "ssw2", 1]])
    rnd.shuffle(members)
    return {
        "nodes": [
            {"style": "asynq", "ret": "return", "body": [["yield", [rnd.choice(["list", "tuple"]), members]], ["yield", item(0)]]},
            {"style": rnd.choice(["asynq", "method"]), "ret": "return", "body": waiter},
            {"style": "asynq", "ret": "return", "body": shared},
        ],
        "root": 0,
        "shared": [2],
        "kinds": 2,
        "faults": {},
        "flush_faults": {},
        "defaults": {"sv0": "dflt-sv0", "sv1": "dflt-sv1", "at0": "dflt-at0"},
    }


def run_once(prog, how, seed, settings, clock, outfile, in_thread=False, late=False):
    """One run of the program under the given option settings. in_thread: on a brand-new thread (fresh
    thread-local scheduler / profiler state, no profiler.reset() beforehand), as a worker thread would run it."""
    if in_thread:
        import threading

        box = []

        def target():
            try:
                box.append(("ok", run_once(prog, how, seed, settings, clock, outfile, in_thread=None, late=late)))
            except BaseException as e:  # harness trouble: re-raised on the calling thread
                box.append(("err", e))

        th = threading.Thread(target=target)
        th.start()
        th.join()
        if box[0][0] == "err":
            raise box[0][1]
        return box[0][1]
    import asynq
    import asynq.scheduler as S
    from asynq import profiler
    from .. import harness

    opts = asynq.debug.options
    saved = {k: getattr(opts, k) for k in BOOL_OPTIONS}
    saved_int = opts.SCHEDULER_STATE_DUMP_INTERVAL
    saved_max = opts.MAX_TASK_STACK_SIZE
    old_utime = S.utime
    size0 = os.fstat(outfile).st_size
    if in_thread is False:
        profiler.reset()
    try:
        def apply_settings():
            for k, v in settings.items():
                setattr(opts, k, v)
            if settings.get("DUMP_SCHEDULER_STATE"):
                opts.SCHEDULER_STATE_DUMP_INTERVAL = 0

        if not late:
            apply_settings()
        if clock is not None:
            S.utime = clock
        if prog.get("max_stack"):
            opts.MAX_TASK_STACK_SIZE = prog["max_stack"]
        rt = harness.HarnessRT(prog, prio=("content", PRIO[1]) if prog.get("content_priority") else PRIO, seed=seed)
        if prog.get("deep_args"):
            # every task's first argument is a structure whose repr() raises RecursionError
            deep = []
            for _ in range(20000):
                deep = [deep]
            rt.deep_repr = deep
        if prog.get("percent_args"):
            # every task's first argument prints with per-cent signs in it (a LIKE pattern, a format string): names
            # and dumps are built from the arguments' repr()
            rt.label = "100%s of %(k)d %"
        if prog.get("evil"):
            # the scheduler's own batch.flush() call raises (switching the active batch fails / flush() overridden /
            # a before-subscriber already flushed the batch): the after-flush event still has to fire
            rt.evil = tuple(prog["evil"])
        # what a program can observe also includes who the active task is
        rt.step_probes.append(_active_probe)
        rt.sync_probes.append(_after_sync_probe)
        if late:
            # the options are switched on while the computation is under way (at its first scheduler flush): tasks
            # and items created before that moment complete after it
            pending = [True]

            def switch(rt_, batch):
                if pending:
                    del pending[:]
                    apply_settings()

            rt.before_probes.append(switch)
        out = rt.run(how)
    finally:
        S.utime = old_utime
        for k, v in saved.items():
            setattr(opts, k, v)
        opts.SCHEDULER_STATE_DUMP_INTERVAL = saved_int
        opts.MAX_TASK_STACK_SIZE = saved_max
    try:
        import sys

        sys.stdout.flush()
        sys.stderr.flush()
    except Exception:
        pass
    nbytes = os.fstat(outfile).st_size - size0
    # the captured text is only measured: do not let it pile up on disk
    os.ftruncate(outfile, 0)
    os.lseek(outfile, 0, os.SEEK_SET)
    stats = profiler.flush()
    return rt, out, nbytes, len(stats)


def run_unit(unit, progress):
    import asynq

    res = tl.new_result()
    c = res["counters"]

    def inc(k, n=1):
        c[k] = c.get(k, 0) + n

    # diagnostics of asynq go to the process's stdout/stderr objects bound at import: capture at fd level
    tmp = tempfile.TemporaryFile()
    fd = tmp.fileno()
    os.dup2(fd, 1)
    os.dup2(fd, 2)
    a, b = unit["cases"]
    for i in range(a, b):
        progress(i)
        cs = tl.case_seed(unit["seed"], ID, i)
        rnd = random.Random(cs)
        prog = gen.generate(cs, PROFILE)
        if i % 12 == 5:
            prog = wide_program(rnd)
            inc("wide_programs")
        if i % 4 == 3:
            prog["content_priority"] = True
            inc("programs_whose_batch_priority_depends_on_the_items")
        if i % 10 == 8:
            prog["deep_args"] = True
            inc("programs_whose_task_arguments_have_no_computable_repr")
        if i % 5 == 1:
            prog["percent_args"] = True
            inc("programs_whose_task_arguments_print_with_per_cent_signs")
        if i % 3 == 2:
            prog["harvest_inside"] = True
            inc("programs_whose_tasks_flush_the_profiler_after_their_synchronous_calls")
        if i % 12 == 2:
            prog["evil"] = [rnd.choice(["switch", "override", "preflush"]), rnd.randrange(2)]
            inc("programs_in_which_the_schedulers_flush_call_raises")
        if i % 12 == 7:
            prog = syncshared_program(rnd)
            inc("programs_waiting_synchronously_for_a_task_already_on_the_schedulers_stack")
        if i % 24 == 21:
            prog = gen.survivor_program(rnd)
            inc("programs_recovering_from_the_recursion_guard_in_a_nested_sync_call")
        elif i % 12 == 9:
            prog = overflow_program(rnd)
            inc("programs_recovering_from_the_recursion_guard_in_a_nested_sync_call")
        how = ["call", "value", "yielded", "yielded_value"][i % 4]
        # one program in three runs - under every option setting - on a brand-new thread each time
        thr = i % 3 == 1
        if thr:
            inc("programs_run_on_fresh_threads")
        rt0, out0, _n, _s = run_once(prog, how, cs, dict(DEFAULTS), None, fd, in_thread=thr)
        rt0b, out0b, _n, _s = run_once(prog, how, cs, dict(DEFAULTS), None, fd, in_thread=thr)
        res["evaluations"] += 2
        base = trace_of(rt0, out0)
        if trace_of(rt0b, out0b) != base:
            inc("programs_skipped_default_trace_not_reproducible")
            continue
        inc("programs")
        ntasks = len(rt0.frames)
        flushed = any(ev[0] == "flush_body" for ev in rt0.log)
        if out0[0] == "exc":
            inc("programs_ending_in_exception")
        if any(ev[0] == "sync_enter" for ev in rt0.log):
            inc("programs_with_sync_reentry")
        if any(ev[0] == "syncitem" for ev in rt0.log):
            inc("programs_with_synchronous_item_value")
        bad = False
        subs = subsets_for(i, rnd, unit.get("nsub", 3))
        if any(ev[0] == "sync_enter" for ev in rt0.log) and not any(st.get("COLLECT_PERF_STATS") for _l, st in subs):
            st = dict(DEFAULTS)
            st["COLLECT_PERF_STATS"] = True
            if rnd.random() < 0.5:
                st["KEEP_DEPENDENCIES"] = True
            subs.append(("perf-for-sync-programs", st))
        if flushed and i % 3 == 0:
            st = dict(subs[0][1]) if i % 6 == 0 else {k: (True if k in ("COLLECT_PERF_STATS", "KEEP_DEPENDENCIES") or k.startswith("DUMP_") else DEFAULTS[k]) for k in BOOL_OPTIONS}
            subs.append(("late:" + subs[0][0] if i % 6 == 0 else "late:everything-on", st))
        for label, settings in subs:
            clock = None
            big = False
            if settings.get("COLLECT_PERF_STATS"):
                big = rnd.random() < 0.6
                clock = Clock(random.Random(cs ^ 0xC10C), big)
            rt, out, nbytes, nstats = run_once(prog, how, cs, settings, clock, fd, in_thread=thr, late=label.startswith("late:"))
            if label.startswith("late:"):
                inc("runs_with_options_switched_on_at_the_first_flush")
            res["evaluations"] += 1
            flipped = [k for k in BOOL_OPTIONS if settings[k] != DEFAULTS[k]]
            inc("option_subsets_run")
            if label.startswith("single:"):
                k = label.split(":")[1]
                inc("single_option_runs_" + k)
                if nbytes > 0:
                    inc("single_option_runs_with_diagnostic_output_" + k)
            if settings.get("COLLECT_PERF_STATS"):
                inc("perf_stats_runs")
                inc("profiler_entries", nstats)
                if clock is not None:
                    inc("clock_calls", clock.calls)
                    if clock.max_delta > 2**31:
                        inc("perf_stats_runs_with_elapsed_over_2^31_us")
            if settings.get("KEEP_DEPENDENCIES"):
                inc("keep_dependencies_runs")
            inc("diagnostic_bytes_captured", nbytes)
            if ntasks >= 2 and flushed:
                res["nontrivial"].append(hash((lang.struct_hash(prog), tuple(sorted(flipped)))) & 0xFFFFFFFFFFFF)
            tr = trace_of(rt, out)
            if tr != base and not bad:
                bad = True
                n = 0
                while n < len(tr) and n < len(base) and tr[n] == base[n]:
                    n += 1
                fails = out[0] == "exc" and out0[0] == "val"
                res["violations"].append(
                    {
                        "oracle": "computation-fails-only-with-options" if fails else "trace-differs-from-default-options",
                        "mechanism": classify(flipped, out, out0, rt, clock) + ("/switched-on-at-the-first-flush" if label.startswith("late:") else ""),
                        "detail": {
                            "options_changed": flipped,
                            "first_difference_at_event": n,
                            "default": tl.short(base[n] if n < len(base) else "<end>", 300),
                            "with_options": tl.short(tr[n] if n < len(tr) else "<end>", 300),
                            "outcome_default": tl.short(out0[:2], 200),
                            "outcome_with_options": tl.short(out[:2], 200),
                            "build_elapsed_max_us": clock.max_delta if clock else None,
                            "how": how,
                            "program": prog,
                        },
                        "case": {"cases": [i, i + 1]},
                    }
                )
        if len(res["samples"]) < 1 and ntasks >= 3 and flushed and len(prog["nodes"]) <= 6:
            res["samples"].append({"program": prog, "default_trace_events": len(base), "subsets": [l for l, _s in subsets_for(i, random.Random(cs), unit.get("nsub", 3))]})
    return res


def classify(flipped, out, out0, rt, clock):
    """Mechanism = which options matter (smallest informative description), never a case hash."""
    if out[0] == "exc" and out[1] and out[1][0] == "OverflowError":
        return "OverflowError/COLLECT_PERF_STATS/elapsed-over-2^31us"
    if len(flipped) == 1:
        return "trace-differs/" + flipped[0]
    key = [k for k in flipped if k in ("COLLECT_PERF_STATS", "KEEP_DEPENDENCIES", "ENABLE_COMPLEX_ASSERTIONS", "DUMP_FLUSH_BATCH", "DUMP_SCHEDULER_STATE", "DUMP_PRE_ERROR_STATE")]
    return "trace-differs/subset:" + "+".join(sorted(key) or ["dumps-only"])


def reach(c, tier):
    out = []
    for k in BOOL_OPTIONS:
        if not c.get("single_option_runs_" + k):
            out.append("single_option_runs_%s is zero" % k)
    printing = [k for k in BOOL_OPTIONS if k.startswith("DUMP_") and k not in ("DUMP_PRE_ERROR_STATE", "DUMP_STACK")]
    for k in printing:
        if not c.get("single_option_runs_with_diagnostic_output_" + k):
            out.append("option %s never produced diagnostic output" % k)
    for k in ("profiler_entries", "perf_stats_runs_with_elapsed_over_2^31_us", "keep_dependencies_runs", "programs_with_sync_reentry", "programs_with_synchronous_item_value", "programs_ending_in_exception", "programs_recovering_from_the_recursion_guard_in_a_nested_sync_call", "programs_in_which_the_schedulers_flush_call_raises"):
        if not c.get(k):
            out.append("%s is zero" % k)
    return out
