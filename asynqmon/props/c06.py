"""C06 - an AsyncContext is active exactly while its task, or work it awaits, runs."""
import random

from .. import gen, lang, ref, tl

ID = "C06"
LEVEL = "exploration"
RULE = (
    "seeded Tasklang programs dense in with-blocks (AsyncContext subclasses, scoped-value and attribute overrides; "
    "nesting <= 4; blocks spanning 0-5 yields; in 12% of the blocks two more logging contexts with NON-lexical lifetimes - entered A then G, left A then G, statements in between; several concurrently pending tasks; blocks left normally, by exceptions "
    "thrown into or raised inside them, and by early return/result()); profile A adds sync re-entry and shared tasks, "
    "profile N (yield-only, no shared tasks) adds NonAsyncContext blocks; in one program of six some contexts' own resume()/pause() raise on the 1st (= on entry: the block is then never entered and the context must never be called again), 2nd or 3rd call (the oracles then apply to all OTHER contexts, without the reference), half of them from a structured family: a synchronously called subtree whose context fails on re-activation after a flush, handled by the caller, which then opens contexts of its own and blocks in them. All get_priority() policies, both builds. "
    "In-run oracles: per context strict resume/pause alternation from entry (resumed) to exit (paused); at every task "
    "step and every flush each live context must be ACTIVE if its owner runs (also inside a sync call) or a running task "
    "is reachable only through its owner, and PAUSED if its owner awaits no running task (every context at a top-level "
    "flush); NonAsync: a body closed with the 'cannot yield' AssertionError really was blocked on an unflushed item, no "
    "task outside the running chain stays suspended in a NonAsync block across a flush, and outcomes equal the "
    "reference's prediction. distinct = program hash; non-trivial = some context saw >= 2 resume/pause pairs."
)
RULE += (
    " Further structured families: a context whose own pause() raises exactly when its block is LEFT (handled "
    "by the task, which is suspended again later: the context that was left must not be heard of again); "
    "'revisit' programs (see C01), half of them with a NonAsyncContext around the second parent's await - "
    "nothing needs flushing for it any more, so it must not fail."
)
ASSUMPTIONS = [
    "contexts of tasks awaited by several parents are unconstrained while a shared descendant runs (the statement says 'only it')",
    "contexts whose own pause()/resume() raise are unconstrained (C08 covers what the scheduler does then); every other context in such a run is still checked",
]
UNIT_TIMEOUT = {"quick": 150, "thorough": 2400}

COMMON = dict(
    p_nonlifo=0.12,
    p_equal_values=0.15,
    p_item_fault=0.05,
    p_wrap=0.6,
    max_nodes=12,
    block_depth=4,
    w_stmt=dict(with_=5.0, raise_=0.4, try_=1.5, ret=0.5, orphan=0, read=0.6),
    w_leaf=dict(call=6, item=5, err=0.3, junk=0.03, lazy=0.3, again=0.4, dbg=0.3, const=0.8),
    lazy_modes=["ok", "sync", "sync", "raise"],
    p_ctx_sync=0.15,
    p_try_raise=0.4,
    kinds=2,
)
PROFILE_A = gen.profile(p_shared=0.3, ctxs=["actx", "actx", "actx", "ov", "attr"], **COMMON)
PROFILE_N = gen.profile(
    p_shared=0.0,
    ctxs=["actx", "actx", "nonasync", "ov", "nonasync"],
    **dict(COMMON, w_stmt=dict(with_=5.0, raise_=0.3, try_=1.5, ret=0.4, orphan=0, read=0.4, sync=0))
)
MON_A = ("ctxactive", "refeq", "restore", "nesting", "stale")
# profile F: some contexts fail in resume()/pause(); no reference then - the in-run oracles on all OTHER contexts remain
MON_F = ("ctxactive", "nesting", "stale")
HOWS = ["call", "value", "yielded", "yielded_value"]


def lease_program(rnd):
    """A structured family the random generator rarely hits: a task calls a subtree synchronously in which a
    context fails when it is re-activated after a flush (a lease that expired while its task was suspended),
    handles the failure, then opens ordinary contexts of its own and is suspended inside them - next to
    sibling tasks with contexts of their own."""
    site = [0]

    def st(prefix):
        site[0] += 1
        return "%s%d" % (prefix, site[0])

    def item():
        site[0] += 1
        return ["leaf", ["item", rnd.randrange(2), "k%d" % site[0]]]

    def yields(n):
        return [["yield", item()] for _ in range(n)]

    def tracked(name, n):
        body = yields(n)
        if rnd.random() < 0.3:
            body = [["with", ["actx", name + "in"], body]]
        return [["with", ["actx", name], body]]

    nodes = [{"style": "asynq", "ret": "return", "body": []} for _ in range(5)]
    # 3: the task holding the lease
    lease_body = [["with", ["actx", "lease"], yields(rnd.choice([1, 2, 2, 3]))]]
    if rnd.random() < 0.4:
        lease_body = [["with", ["actx", "outer3"], lease_body]]
    if rnd.random() < 0.3:
        lease_body = yields(1) + lease_body
    nodes[3]["body"] = lease_body
    # 2: the synchronously called function; awaits 3 directly or next to other work
    if rnd.random() < 0.5:
        nodes[2]["body"] = [["yield", ["leaf", ["call", st("c"), 3]]]]
    else:
        nodes[2]["body"] = [["with", ["actx", "mid"], [["yield", ["list", [["leaf", ["call", st("c"), 3]], item()]]]]]]
    # 1: the caller
    body = []
    if rnd.random() < 0.4:
        body += tracked("pre", 1)
    call = [["sync", st("s"), 2, rnd.choice(["call", "value"])]]
    if rnd.random() < 0.3:
        call = [["with", ["actx", "around"], call]]
    body.append(["try", call, "exc", [], []])
    body += tracked("tracker", rnd.choice([1, 2, 3]))
    if rnd.random() < 0.5:
        body += tracked("tracker2", 1)
    nodes[1]["body"] = body
    # 4: a sibling with contexts of its own
    nodes[4]["body"] = tracked("sib", rnd.choice([1, 2, 3]))
    members = [["leaf", ["call", st("c"), 1]]]
    if rnd.random() < 0.7:
        members.append(["leaf", ["call", st("c"), 4]])
    rnd.shuffle(members)
    nodes[0]["body"] = [["yield", ["list", members]]]
    if rnd.random() < 0.3:
        nodes[0]["body"] = [["with", ["actx", "rootctx"], nodes[0]["body"]]]
    for node in nodes:
        node["style"] = rnd.choice(["asynq", "asynq", "method", "proxy"])
    return {
        "nodes": nodes,
        "root": 0,
        "shared": [],
        "kinds": 2,
        "faults": {},
        "flush_faults": {},
        "ctx_faults": {"lease": [rnd.choice(["resume", "resume", "resume", "pause"]), rnd.choice([1, 2, 2, 3])]},
        "defaults": {"sv0": "dflt-sv0", "sv1": "dflt-sv1", "at0": "dflt-at0"},
    }


def exitfail_program(rnd):
    """Another structured family: a context whose own pause() raises exactly when its with-block is LEFT; the task
    handles that, goes on, and is suspended for flushes later - the context that was left must not be heard of
    again, and the task's other contexts follow the usual rules."""
    site = [0]

    def item():
        site[0] += 1
        return ["leaf", ["item", rnd.randrange(2), "x%d" % site[0]]]

    def yields(n):
        return [["yield", item()] for _ in range(n)]

    k = rnd.choice([0, 0, 1, 2])
    inner = yields(k)
    if rnd.random() < 0.3:
        inner = [["with", ["actx", "inner_ok"], inner + yields(1)]]
        k += 1
    blk = [["with", ["actx", "xfail"], inner]]
    if rnd.random() < 0.4:
        blk = [["with", ["actx", "around_ok"], blk]]
    body = []
    if rnd.random() < 0.4:
        body += yields(1)
    body.append(["try", blk, "exc", (yields(1) if rnd.random() < 0.4 else []), []])
    body += yields(rnd.choice([1, 2]))
    body.append(["with", ["actx", "later_ok"], yields(rnd.choice([1, 2]))])
    nodes = [{"style": "asynq", "ret": "return", "body": []} for _ in range(3)]
    nodes[1]["body"] = body
    nodes[2]["body"] = [["with", ["actx", "sib_ok"], yields(rnd.choice([1, 2, 3]))]]
    members = [["leaf", ["call", "xc1", 1]], ["leaf", ["call", "xc2", 2]]]
    rnd.shuffle(members)
    nodes[0]["body"] = [["yield", ["list", members]]]
    if rnd.random() < 0.3:
        nodes[0]["body"] = [["with", ["actx", "root_ok"], nodes[0]["body"]]]
    for node in nodes:
        node["style"] = rnd.choice(["asynq", "asynq", "method", "proxy"])
    return {
        "nodes": nodes,
        "root": 0,
        "shared": [],
        "kinds": 2,
        "faults": {},
        "flush_faults": {},
        # pause() number k+1 of that context is the one made by its __exit__
        "ctx_faults": {"xfail": ["pause", k + 1, rnd.choice(["exc", "exc", "falsy", "frozen"])]},
        "defaults": {"sv0": "dflt-sv0", "sv1": "dflt-sv1", "at0": "dflt-at0"},
    }


def _shrunk(prog, how, pol, cs, oracle):
    small, runs = tl.shrink_for(prog, how, pol, cs, MON_A, oracle)
    return {"shrunk_program": small, "shrink_runs": runs}


def plan(tier, seed, build, scale):
    n = int((1800 if tier == "quick" else 80000) * scale)
    per = max(1, n // (10 if tier == "quick" else 40))
    units = []
    a = 0
    while a < n:
        units.append({"cases": [a, min(n, a + per)], "nsched": 3 if tier == "quick" else 6})
        a += per
    return units


def classify(v, prog, rt):
    """Mechanism key for known-findings matching (never a case hash)."""
    o = v["oracle"]
    return o


def run_unit(unit, progress):
    res = tl.new_result()
    c = res["counters"]

    def inc(k, n=1):
        c[k] = c.get(k, 0) + n

    a, b = unit["cases"]
    for i in range(a, b):
        progress(i)
        cs = tl.case_seed(unit["seed"], ID, i)
        na = i % 3 == 2
        prog = gen.generate(cs, PROFILE_N if na else PROFILE_A)
        faulty = False
        if i % 12 == 1:
            prog = gen.revisit_program(random.Random(cs ^ 0x7E715), nac=(i % 24 == 13))
            inc("revisit_programs")
        if i % 12 == 10:
            prog = lease_program(random.Random(cs ^ 0x1EA5E))
            faulty = True
            inc("lease_programs")
        elif i % 12 == 7:
            prog = exitfail_program(random.Random(cs ^ 0xE817))
            faulty = True
            inc("programs_whose_context_fails_while_being_left")
        elif i % 6 == 4:
            names = [st[1][1] for node in prog["nodes"] for st in lang.iter_stmts(node["body"]) if st[0] == "with" and st[1][0] == "actx"]
            frnd = random.Random(cs ^ 0xF06)
            if len(names) >= 2:
                prog["ctx_faults"] = {}
                for nm in frnd.sample(names, min(len(names) - 1, frnd.randint(1, 2))):
                    prog["ctx_faults"][nm] = [frnd.choice(["resume", "resume", "pause"]), frnd.randint(1, 3)]
                faulty = True
        if prog.get("shared"):
            # a read under a task awaited by several parents has no unique sequential answer
            gen.strip_reads_under_shared(prog)
        rnd = random.Random(cs ^ 0xC06)
        try:
            exp_rrt = None if faulty else ref.evaluate(prog)
        except lang.HarnessFault:
            inc("ref_budget_skips")
            continue
        nonlex = any(st[0] == "ctxopen" for node in prog["nodes"] for st in lang.iter_stmts(node["body"]))
        if nonlex:
            inc("programs_with_non_lexical_context_lifetimes")
        pols = tl.policies(prog, rnd, unit.get("nsched", 3), exhaustive_perms=unit["tier"] == "thorough")
        bad = False
        multi = False
        for pi, pol in enumerate(pols):
            how = HOWS[(i + pi) % 4]
            mons = MON_F if faulty else MON_A
            if nonlex:
                # the program itself leaves its contexts in another order than it entered them: the
                # "whatever was resumed last is paused first" reading (C07) does not apply to it
                mons = tuple(m for m in mons if m != "nesting")
            rt, out, exp, rrt = tl.execute(prog, how, pol, cs, mons, rrt_exp=exp_rrt)
            if faulty:
                inc("runs_with_failing_context_callbacks")
                if any(ev[0] == "ctx_fault" for ev in rt.log):
                    inc("runs_where_a_context_callback_raised")
            res["evaluations"] += 1
            tl.harvest(rt, c)
            pairs = {}
            for ev in rt.log:
                if ev[0] == "ctx_pause":
                    pairs[ev[1]] = pairs.get(ev[1], 0) + 1
                elif ev[0] == "ctx_exit" and ev[2] is not None:
                    inc("blocks_left_by_" + ("GeneratorExit" if "Exit" in ev[2] or "Result" in ev[2] else "exception"))
                elif ev[0] == "ctx_exit":
                    inc("blocks_left_normally")
            m = sum(1 for v in pairs.values() if v >= 2)
            inc("contexts_with_2plus_resume_pause_pairs", m)
            inc("contexts_observed", len(pairs))
            if m:
                multi = True
            if rt.violations and not bad:
                bad = True
                for v in rt.violations[:3]:
                    res["violations"].append(
                        {
                            "oracle": v["oracle"],
                            "mechanism": classify(v, prog, rt),
                            "detail": dict({"how": how, "prio": pol, "violation": v["detail"], "program": prog}, **_shrunk(prog, how, pol, cs, v["oracle"])),
                            "case": {"cases": [i, i + 1]},
                        }
                    )
        inc("programs")
        if na:
            inc("programs_with_nonasync_profile")
        if multi:
            res["nontrivial"].append(lang.struct_hash(prog))
        if len(res["samples"]) < 1 and multi and len(prog["nodes"]) <= 5:
            res["samples"].append({"program": prog, "context_events": [e for e in rt.log if e[0].startswith("ctx_")][:30]})
    return res


def reach(c, tier):
    out = []
    for k in ("contexts_with_2plus_resume_pause_pairs", "n_ctx_must_be_paused", "n_ctx_exclusive", "n_na_aborts", "n_na_flush_checks", "blocks_left_by_exception", "blocks_left_by_GeneratorExit", "programs_with_non_lexical_context_lifetimes"):
        if not c.get(k):
            out.append("%s is zero" % k)
    return out
