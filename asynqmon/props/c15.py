"""C15 - fn.asyncio() under an event loop matches the asynq result."""
import asyncio
import itertools
import random

from .. import gen, lang, ref, tl
from ..lang import Frame, exc_desc

ID = "C15"
LEVEL = "exploration"
RULE = (
    "seeded batch-free Tasklang programs (trees of tasks in 9 calling styles incl. methods, classmethods, "
    "staticmethods, async_proxy, pure, plain functions and a function with an explicit hand-written asyncio_fn; "
    "ConstFuture (also holding an exception INSTANCE as its value) and None leaves; tuple/list/dict structures nested and empty; raises and try/except at any level, "
    "several failing awaitables in one yield). Three-way equality of asyncio.run(fn.asyncio()), fn() and the sequential "
    "reference, at the root and for everything every task received; at every exception delivery under asyncio every "
    "task awaited in that yield has finished; is_asyncio_mode() is False before, after (also after failure) and in an "
    "unrelated observer coroutine running concurrently on the same loop; a plain synchronous call of an @asynq() "
    "function from inside the running coroutine raises RuntimeError. "
    "distinct = program hash; non-trivial = at least 3 task instances."
)
RULE += (
    " Exception class 'cached' (one error object raised again and again) is part of every generator; one "
    "program in ten is a 'recatch' program (several children raise the same cached object, one body catches it "
    "again and again and keeps awaiting). One program in five has with-blocks of AsyncContext subclasses "
    "(outcome compared); one unit awaits @deduplicate() functions (function / method, default / custom "
    "keygetter) under asyncio while the deduplication table is empty, holds an uncomputed task built earlier "
    "for the same or another key, or saw the key computed earlier. In one program in three the hand-written "
    "asyncio_fn twins return an asyncio.Task; the deduplicate unit also makes the synchronous-call probe "
    "(RuntimeError expected). Unit refusals: 21 kinds of callable x called from a task / from its child under "
    ".asyncio(): the synchronous call raises RuntimeError and nothing of the callable runs. The refusals also "
    "run inside awaited children that are not converted generators (asyncio_fn coroutine, plain function "
    "through async_call). Unit pairs: callables declared with sync_fn= (function, method, class- and "
    "staticmethod) awaited under asyncio, alone and yielded, twice in a row."
)
ASSUMPTIONS = ["the quantifier is restricted to what resolve_awaitables claims to support (no batch items, ErrorFuture, lazy Future, result(), scoped values); with-blocks of AsyncContext subclasses are included, compared by outcome"]
UNIT_TIMEOUT = {"quick": 240, "thorough": 2400}

PROFILE = gen.profile(
    p_shared=0.0,
    p_result=0.0,
    p_future_result=0.0,
    p_same_object=0.0,  # a coroutine object cannot be awaited twice: re-yielding is not part of what .asyncio() promises
    p_item_fault=0.0,
    p_wrap=0.0,
    p_reuse=0.2,
    max_nodes=12,
    kinds=1,
    exc_cls=["exc", "exc", "falsy", "frozen", "tasky", "cached", "typed"],
    try_kinds=["exc", "exc", "none"],
    w_stmt=dict(sync=0, raise_=0.5, try_=2.0, with_=0, ret=0.3, orphan=0, read=0, probe=0.5),
    w_leaf=dict(call=8, item=0, const=2.5, none=1.2, err=0, lazy=0, again=0, junk=0, dbg=0, constexc=1.0),
    w_struct=dict(leaf=3, tuple=3, list=3, dict=2),
    p_try_raise=0.6,
    p_try_matches=0.7,
    styles=["asynq", "asynq", "pure", "method", "classmethod", "staticmethod", "proxy", "explicit"],
    plain_styles=["plain", "pureplain"],
    max_instances=120,
)

# with-blocks of an AsyncContext subclass: entered and left by the body itself under .asyncio() too (the library's
# asyncio branch of __enter__ / __exit__); only the OUTCOME is compared there - when the contexts are paused and
# resumed is a statement about the scheduler (C06), and scoped values are not task-local on an event loop
PROFILE_CTX = dict(PROFILE)
PROFILE_CTX["w_stmt"] = dict(PROFILE["w_stmt"], with_=1.6, raise_=0.8)
PROFILE_CTX["ctxs"] = ["actx"]


def plan(tier, seed, build, scale):
    n = int((1400 if tier == "quick" else 80000) * scale)
    per = max(1, n // (8 if tier == "quick" else 64))
    units = []
    a = 0
    while a < n:
        units.append({"cases": [a, min(n, a + per)]})
        a += per
    units.append({"mode": "dedup", "cases": [0, 1]})
    units.append({"mode": "refusals", "cases": [0, 1]})
    units.append({"mode": "pairs", "cases": [0, 1]})
    return units


def fix_ret(prog):
    for node in prog["nodes"]:
        node["ret"] = "return"
        for st in lang.iter_stmts(node["body"]):
            if st[0] == "ret":
                st[1] = "return"


def run_dedup(res, inc, progress):
    """@deduplicate() functions under .asyncio(): the same value as the plain call, whatever the deduplication table
    holds at that moment (a task of the same key built earlier under the scheduler and never computed, one that
    is computed, none), for one or several requests of the same key in one yield, asked directly or from a child."""
    import asynq
    from asynq import asynq as A, is_asyncio_mode
    from asynq.tools import DeduplicateDecorator, deduplicate

    class Boom(Exception):
        pass

    n = 0
    for table, shape, fail, keyed, method in itertools.product(("empty", "stale-uncomputed", "computed-earlier", "stale-other-key"), ("single", "twice-in-one-yield", "from-a-child", "asyncio-entry"), (False, True), (False, True), (False, True)):
        progress(n)
        n += 1
        asynq.scheduler.reset()
        DeduplicateDecorator.tasks.clear()
        runs = []
        dd_deco = deduplicate(keygetter=(lambda args, kwargs: args[-1] % 10)) if keyed else deduplicate()

        if method:
            class K(object):
                @dd_deco
                @A()
                def m(self, k):
                    runs.append(k)
                    v = yield inner.asynq(k)
                    if fail:
                        raise Boom(k)
                    return ("dd", v)

            dd = K().m
        else:
            @dd_deco
            @A()
            def dd(k):
                runs.append(k)
                v = yield inner.asynq(k)
                if fail:
                    raise Boom(k)
                return ("dd", v)

        @A()
        def inner(k):
            return k * 2

        @A()
        def child(k):
            return (yield dd.asynq(k))

        @A()
        def root(k):
            try:
                if shape == "single":
                    return (yield dd.asynq(k))
                if shape == "twice-in-one-yield":
                    return (yield (dd.asynq(k), [dd.asynq(k)]))
                return (yield child.asynq(k), dd.asynq(k))
            except Boom as e:
                return ("caught", e.args)

        def outcome(thunk):
            try:
                return ("val", thunk())
            except BaseException as e:
                return ("exc", type(e).__name__, str(e)[:120])

        want = outcome(lambda: dd(7)) if shape == "asyncio-entry" else outcome(lambda: root(7))
        DeduplicateDecorator.tasks.clear()
        stale = None
        if table == "stale-uncomputed":
            stale = dd.asynq(7)  # built under the scheduler, registered, never computed
        elif table == "computed-earlier":
            outcome(lambda: dd(7))
        elif table == "stale-other-key":
            stale = dd.asynq(8)
        del runs[:]
        before = is_asyncio_mode()
        got = outcome(lambda: asyncio.run(dd.asyncio(7) if shape == "asyncio-entry" else root.asyncio(7)))
        after = is_asyncio_mode()
        res["evaluations"] += 1
        inc("deduplicated_functions_awaited_under_asyncio")
        if stale is not None:
            inc("asyncio_runs_with_an_uncomputed_task_registered_for_the_key")
        # ... and its plain synchronous call is refused with RuntimeError while asyncio mode is on
        @A()
        def prober(k):
            try:
                dd(k)
                return "returned"
            except RuntimeError:
                return "RuntimeError"
            except BaseException as e:
                return "%s: %s" % (type(e).__name__, str(e)[:100])
            yield

        refused = outcome(lambda: asyncio.run(prober.asyncio(7)))
        inc("sync_call_probes")
        problem = None
        if refused != ("val", "RuntimeError"):
            problem = {"synchronous_call_in_asyncio_mode": refused, "expected": "RuntimeError"}
        elif got != want:
            problem = {"asyncio": got, "plain_call": want}
        elif before or after:
            problem = {"asyncio_mode_before": before, "after": after}
        if problem is not None and len(res["violations"]) < 4:
            res["violations"].append(
                {
                    "oracle": "asyncio-outcome-differs" if "asyncio" in problem or "after" in problem else "sync-call-in-asyncio-mode-did-not-raise-RuntimeError",
                    "mechanism": ("asyncio-outcome-differs" if "asyncio" in problem or "after" in problem else "sync-call-in-asyncio-mode-did-not-raise-RuntimeError") + "/deduplicate",
                    "detail": dict(problem, deduplication_table=table, shape=shape, body_fails=fail, custom_keygetter=keyed, method=method),
                    "case": {"mode": "dedup", "cases": [0, 1]},
                }
            )
        res["nontrivial"].append(hash(("dd", table, shape, fail, keyed, method)) & 0xFFFFFFFFFFFF)
    DeduplicateDecorator.tasks.clear()
    asynq.scheduler.reset()
    return res


def run_refusals(res, inc, progress):
    """While asyncio mode is on, the plain synchronous call of ANY asynq function is refused with RuntimeError -
    whatever it is declared with (sync_fn=, async_proxy, the caching / deduplicating / retrying decorators on top)
    and whichever way it is reached (function, method through instance or class, classmethod, staticmethod) - and
    nothing of it runs."""
    import asynq
    from asynq import asynq as A, async_proxy, ConstFuture, is_asyncio_mode
    from asynq.tools import acached_per_instance, alazy_constant, alru_cache, aretry, deduplicate

    ran = []

    @A()
    def fn(x):
        ran.append("fn")
        return x

    def _sync(x):
        ran.append("sync_fn of pair")
        return x

    @A(sync_fn=_sync)
    def pair(x):
        ran.append("pair")
        return x

    @async_proxy()
    def proxy(x):
        ran.append("proxy")
        return ConstFuture(x)

    @deduplicate()
    @A()
    def dd(x):
        ran.append("dd")
        return x

    @alru_cache()
    @A()
    def lru(x):
        ran.append("lru")
        return x

    @aretry(Exception)
    @A()
    def retry(x):
        ran.append("retry")
        return x

    @alazy_constant()
    @A()
    def lazyc():
        ran.append("lazyc")
        return 1

    class K(object):
        @A()
        def m(self, x):
            ran.append("m")
            return x

        @A()
        @classmethod
        def cm(cls, x):
            ran.append("cm")
            return x

        @A()
        @staticmethod
        def sm(x):
            ran.append("sm")
            return x

        def _msync(self, x):
            ran.append("sync_fn of pm")
            return x

        @A(sync_fn=_msync)
        def pm(self, x):
            ran.append("pm")
            return x

        @staticmethod
        def _ssync(x):
            ran.append("sync_fn of psm")
            return x

        @A(sync_fn=_ssync)
        @staticmethod
        def psm(x):
            ran.append("psm")
            return x

        @classmethod
        def _csync(cls, x):
            ran.append("sync_fn of pcm")
            return x

        @A(sync_fn=_csync)
        @classmethod
        def pcm(cls, x):
            ran.append("pcm")
            return x

        @acached_per_instance()
        @A()
        def pi(self, x):
            ran.append("pi")
            return x

        @async_proxy()
        def pr(self, x):
            ran.append("pr")
            return ConstFuture(x)

    k = K()
    cases = [
        ("function", lambda: fn(1)), ("function with sync_fn", lambda: pair(1)), ("async_proxy function", lambda: proxy(1)),
        ("deduplicate", lambda: dd(1)), ("alru_cache", lambda: lru(1)), ("aretry", lambda: retry(1)), ("alazy_constant", lambda: lazyc()),
        ("method via instance", lambda: k.m(1)), ("method via class", lambda: K.m(k, 1)),
        ("classmethod via class", lambda: K.cm(1)), ("classmethod via instance", lambda: k.cm(1)),
        ("staticmethod via class", lambda: K.sm(1)), ("staticmethod via instance", lambda: k.sm(1)),
        ("method with sync_fn via instance", lambda: k.pm(1)), ("method with sync_fn via class", lambda: K.pm(k, 1)),
        ("staticmethod with sync_fn via class", lambda: K.psm(1)), ("staticmethod with sync_fn via instance", lambda: k.psm(1)),
        ("classmethod with sync_fn via class", lambda: K.pcm(1)), ("classmethod with sync_fn via instance", lambda: k.pcm(1)),
        ("acached_per_instance", lambda: k.pi(1)), ("async_proxy method", lambda: k.pr(1)),
    ]
    for depth in (0, 1):
        for n, (name, call) in enumerate(cases):
            progress(n)
            del ran[:]

            @A()
            def body():
                try:
                    call()
                    return "returned"
                except RuntimeError:
                    return "RuntimeError"
                except BaseException as e:
                    return "%s: %s" % (type(e).__name__, str(e)[:100])
                yield

            @A()
            def outer():
                return (yield [body.asynq()])[0]

            try:
                got = asyncio.run((outer if depth else body).asyncio())
            except BaseException as e:
                got = "asyncio.run raised %r" % (e,)
            res["evaluations"] += 1
            inc("sync_call_probes")
            inc("sync_call_refusal_cells")
            if (got != "RuntimeError" or ran or is_asyncio_mode()) and len(res["violations"]) < 6:
                res["violations"].append(
                    {
                        "oracle": "sync-call-in-asyncio-mode-did-not-raise-RuntimeError",
                        "mechanism": "sync-call-in-asyncio-mode-did-not-raise-RuntimeError/" + name.replace(" ", "-"),
                        "detail": {"callable": name, "observed": got, "code_that_ran": list(ran), "called_from_a_child_task": bool(depth), "asyncio_mode_afterwards": is_asyncio_mode()},
                        "case": {"mode": "refusals", "cases": [0, 1]},
                    }
                )
            res["nontrivial"].append(hash(("refuse", name, depth)) & 0xFFFFFFFFFFFF)
    # ... also in children that are not converted generator functions: a hand-written asyncio twin (a plain coroutine
    # that does not set the mode itself) and a plain function reached through async_call - awaited while the yielding
    # task is suspended, they still run inside fn.asyncio()
    from asynq import async_call

    def attempt():
        try:
            fn(1)
            return ("returned", is_asyncio_mode())
        except RuntimeError:
            return ("RuntimeError", is_asyncio_mode())
        except BaseException as e:
            return (type(e).__name__, is_asyncio_mode())

    async def twin_async(x):
        return attempt()

    @A(asyncio_fn=twin_async)
    def twin(x):
        return ("scheduler-mode", x)

    def plain(x):
        return attempt()

    shapes = [
        ("explicit asyncio_fn, alone", lambda: twin.asynq(1), lambda r: r),
        ("explicit asyncio_fn, in a list", lambda: [twin.asynq(1), twin.asynq(2)], lambda r: r[1]),
        ("plain function through async_call", lambda: async_call.asynq(plain, 1), lambda r: r),
        ("plain function through async_call, in a dict", lambda: {"k": async_call.asynq(plain, 1)}, lambda r: r["k"]),
    ]
    for sname, build, pick in shapes:
        for depth in (0, 1):
            del ran[:]

            @A()
            def body():
                return pick((yield build()))

            @A()
            def outer():
                return (yield (body.asynq(),))[0]

            try:
                got = asyncio.run((outer if depth else body).asyncio())
            except BaseException as e:
                got = "asyncio.run raised %r" % (e,)
            res["evaluations"] += 1
            inc("sync_call_probes")
            inc("sync_call_refusal_cells")
            if (got != ("RuntimeError", True) or ran or is_asyncio_mode()) and len(res["violations"]) < 6:
                res["violations"].append(
                    {
                        "oracle": "sync-call-in-asyncio-mode-did-not-raise-RuntimeError",
                        "mechanism": "sync-call-in-asyncio-mode-did-not-raise-RuntimeError/awaited-child",
                        "detail": {"child": sname, "observed (outcome, is_asyncio_mode() seen by the child)": repr(got), "code_that_ran": list(ran), "called_from_a_child_task": bool(depth)},
                        "case": {"mode": "refusals", "cases": [0, 1]},
                    }
                )
            res["nontrivial"].append(hash(("refuse-child", sname, depth)) & 0xFFFFFFFFFFFF)
    return res


def run_pairs(res, inc, progress):
    """Functions and methods declared with a synchronous twin (@asynq(sync_fn=...)) - plain, instance method, class- and
    staticmethod, reached through class and instance: awaiting X.asyncio(args), alone or yielded by another function
    run through .asyncio(), gives what the generator body gives under the scheduler (X.asynq(args).value())."""
    import asynq
    from asynq import asynq as A, is_asyncio_mode

    @A()
    def leaf(x):
        return x + 100

    def _f_sync(x):
        return ("sync twin", x)

    @A(sync_fn=_f_sync)
    def f(x):
        v = yield leaf.asynq(x)
        return ("body", v)

    class K(object):
        def _m_sync(self, x):
            return ("sync twin", x)

        @A(sync_fn=_m_sync)
        def m(self, x):
            v = yield leaf.asynq(x)
            return ("body", v)

        @classmethod
        def _c_sync(cls, x):
            return ("sync twin", x)

        @A(sync_fn=_c_sync)
        @classmethod
        def cm(cls, x):
            v = yield leaf.asynq(x)
            return ("body", v)

        @staticmethod
        def _s_sync(x):
            return ("sync twin", x)

        @A(sync_fn=_s_sync)
        @staticmethod
        def sm(x):
            v = yield leaf.asynq(x)
            return ("body", v)

    k = K()
    targets = [("function", lambda: f), ("method via instance", lambda: k.m), ("classmethod via class", lambda: K.cm), ("classmethod via instance", lambda: k.cm), ("staticmethod via class", lambda: K.sm), ("staticmethod via instance", lambda: k.sm)]

    def outcome(thunk):
        try:
            return ("val", thunk())
        except BaseException as e:
            return ("exc", type(e).__name__, str(e)[:120])

    n = 0
    for rounds in (1, 2):  # (a second round: whatever the first one cached on the class must still be right)
        for name, get in targets:
            for shape in ("alone", "yielded", "yielded in a list"):
                progress(n)
                n += 1
                want = outcome(lambda: get().asynq(2).value())

                @A()
                def caller():
                    if shape == "yielded":
                        return (yield get().asynq(2))
                    return (yield [get().asynq(2), leaf.asynq(0)])[0]

                if shape == "alone":
                    got = outcome(lambda: asyncio.run(get().asyncio(2)))
                else:
                    got = outcome(lambda: asyncio.run(caller.asyncio()))
                res["evaluations"] += 1
                inc("functions_with_a_synchronous_twin_awaited_under_asyncio")
                if (got != want or want != ("val", ("body", 102)) or is_asyncio_mode()) and len(res["violations"]) < 6:
                    res["violations"].append(
                        {
                            "oracle": "asyncio-outcome-differs",
                            "mechanism": "asyncio-outcome-differs/sync_fn-pair",
                            "detail": {"declared_with_sync_fn": name, "shape": shape, "round": rounds, "asyncio": repr(got)[:160], "scheduler": repr(want)[:160]},
                            "case": {"mode": "pairs", "cases": [0, 1]},
                        }
                    )
                res["nontrivial"].append(hash(("pairs", name, shape, rounds)) & 0xFFFFFFFFFFFF)
    return res


def run_unit(unit, progress):
    import asynq
    from asynq import is_asyncio_mode
    from .. import harness, monitors as M

    res = tl.new_result()
    c = res["counters"]

    def inc(k, n=1):
        c[k] = c.get(k, 0) + n

    if unit.get("mode") == "dedup":
        return run_dedup(res, inc, progress)
    if unit.get("mode") == "refusals":
        return run_refusals(res, inc, progress)
    if unit.get("mode") == "pairs":
        return run_pairs(res, inc, progress)
    a, b = unit["cases"]
    for i in range(a, b):
        progress(i)
        cs = tl.case_seed(unit["seed"], ID, i)
        if i % 10 == 4:
            # one cached error object caught again and again by a body that keeps awaiting
            prog = gen.recatch_program(random.Random(cs))
            inc("programs_recatching_one_cached_error_object")
        elif i % 5 == 2:
            prog = gen.generate(cs, PROFILE_CTX)
            if any(st[0] == "with" for node in prog["nodes"] for st in lang.iter_stmts(node["body"])):
                inc("programs_with_context_blocks")
        else:
            prog = gen.generate(cs, PROFILE)
        fix_ret(prog)
        try:
            exp, rrt = ref.evaluate(prog)
        except lang.HarnessFault:
            inc("ref_budget_skips")
            continue
        viol = []
        # ---- plain asynq run
        rt1, out1, _e, _r = tl.execute(prog, "call", None, cs, ("refeq",), rrt_exp=(exp, rrt))
        res["evaluations"] += 1
        for v in rt1.violations[:2]:
            viol.append(("asynq-run:" + v["oracle"], v["detail"]))
        # ---- asyncio run
        rt = harness.HarnessRT(prog, seed=cs)
        rt.track_running = False
        # in one program in three the hand-written asyncio twins hand back an asyncio.Task instead of a coroutine
        rt.explicit_returns_task = i % 3 == 0
        modes = []
        probe_results = []

        def probe(rt_, fr, what):
            if is_asyncio_mode():
                try:
                    harness.t_asynq(rt_, Frame(0, ("probe",), None))
                    probe_results.append("returned")
                except RuntimeError:
                    probe_results.append("RuntimeError")
                except BaseException as e:
                    probe_results.append(repr(e)[:60])

        rt.probe_hook = probe

        def resume_probe(rt_, fr, k, leaves, exc, got):
            if exc is None:
                return
            rt_.n_exc_resumes = getattr(rt_, "n_exc_resumes", 0) + 1
            nfail = 0
            for l in leaves:
                if l.kind == "call":
                    f = rt_.frames.get(l.path)
                    if f is None or not f.done:
                        rt_.violation("exception-delivered-before-all-awaitables-finished", {"task": fr.path, "yield": k, "unfinished": l.path})

        rt.resume_probes.append(resume_probe)

        async def observer(stop):
            while not stop:
                modes.append(is_asyncio_mode())
                await asyncio.sleep(0)

        async def main():
            stop = []
            obs = asyncio.ensure_future(observer(stop))
            modes.append(("before", is_asyncio_mode()))
            root = Frame(prog.get("root", 0), (), None)
            try:
                v = await harness.asyncio_entry(rt.style_of(root.nid), rt, root)
                out = ("val", v)
            except BaseException as e:
                out = ("exc", exc_desc(e))
            modes.append(("after-in-loop", is_asyncio_mode()))
            stop.append(1)
            await obs
            return out

        before = is_asyncio_mode()
        try:
            out2 = asyncio.run(main())
        except BaseException as e:
            out2 = ("exc", ("asyncio.run raised", exc_desc(e)))
        after = is_asyncio_mode()
        res["evaluations"] += 1
        if before or after:
            viol.append(("asyncio-mode-leaked", {"before": before, "after": after, "outcome": out2[0]}))
        for m in modes:
            if m is True or (isinstance(m, tuple) and m[1]):
                viol.append(("asyncio-mode-visible-outside-the-running-coroutine", {"where": m if isinstance(m, tuple) else "concurrent observer coroutine"}))
                break
        inc("observer_samples", sum(1 for m in modes if m is False))
        for p in probe_results:
            inc("sync_call_probes")
            if p != "RuntimeError":
                viol.append(("sync-call-in-asyncio-mode-did-not-raise-RuntimeError", {"observed": p}))
                break
        if out2[:2] != exp[:2]:
            viol.append(("asyncio-outcome-differs", {"asyncio": tl.short(out2, 300), "reference": tl.short(exp, 300), "asynq": tl.short(out1[:2], 300)}))
        for d in tl.compare_frames(rt, rrt)[:2]:
            viol.append(("asyncio-task-received-differs", {"task": d[0], "what": d[1], "expected": tl.short(d[2]), "observed": tl.short(d[3])}))
        for v in rt.violations[:2]:
            viol.append((v["oracle"], v["detail"]))
        inc("exception_deliveries_under_asyncio", getattr(rt, "n_exc_resumes", 0))
        inc("asyncio_fn_calls_that_returned_a_Task_object", getattr(rt, "n_explicit_tasks", 0))
        inc("raises_of_a_cached_error_object", getattr(rt, "n_cached_raises", 0))
        feats = lang.prog_features(prog)
        # yields with >= 2 failing awaitables (from the reference)
        inc("programs")
        if exp[0] == "exc":
            inc("programs_ending_in_exception")
        if any(ev[0] == "caught" for ev in rt.log):
            inc("programs_with_a_caught_failure")
            if any(ev[0] == "yield" for ev in rt.log[max(j for j, ev in enumerate(rt.log) if ev[0] == "caught"):]):
                inc("programs_yielding_again_after_a_catch")
        if feats["struct_dict"]:
            inc("programs_with_dict_yields")
        multi = 0
        for (pth, k), leaves in rt.yield_leaves.items():
            nf = 0
            for l in leaves:
                if l.kind == "call":
                    f = rrt.frames.get(l.path)
            # count via reference: children whose outcome is an exception
        inc("styles_explicit_asyncio_fn", feats["style_explicit"])
        inc("styles_method_like", feats["style_method"] + feats["style_classmethod"] + feats["style_staticmethod"])
        inc("styles_proxy", feats["style_proxy"])
        if len(rrt.frames) >= 3:
            res["nontrivial"].append(lang.struct_hash(prog))
        for v in viol[:3]:
            if len(res["violations"]) < 10:
                res["violations"].append({"oracle": v[0], "mechanism": v[0], "detail": {"violation": v[1], "program": prog}, "case": {"cases": [i, i + 1]}})
        if len(res["samples"]) < 1 and 3 <= len(rrt.frames) <= 6:
            res["samples"].append({"program": prog, "expected": tl.short(exp, 300)})
    return res


def reach(c, tier):
    out = []
    for k in ("deduplicated_functions_awaited_under_asyncio", "exception_deliveries_under_asyncio", "programs_yielding_again_after_a_catch", "programs_with_dict_yields", "sync_call_probes", "observer_samples", "styles_explicit_asyncio_fn", "styles_method_like", "styles_proxy", "programs_ending_in_exception", "programs_recatching_one_cached_error_object", "raises_of_a_cached_error_object"):
        if not c.get(k):
            out.append("%s is zero" % k)
    return out
