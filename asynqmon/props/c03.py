"""C03 - a task resumes exactly once per yield, only when all it awaits is done; termination."""
import random
import sys

from .. import gen, lang, ref, tl

ID = "C03"
LEVEL = "exploration"
RULE = (
    "(a) seeded random Tasklang programs emphasising tasks awaited by several parents, futures yielded again "
    "(also twice within one yield), empty structures, created-but-never-yielded tasks, several batch kinds, sync "
    "re-entry, failures; run under several get_priority() policies on both builds. In-run probes: at every resume "
    "every future of the pending yield is computed; no body step after the body finished. Post-run: fresh sibling "
    "tasks of one list/tuple yield started in written order; never-yielded tasks never started; every task the "
    "sequential reference awaited is computed; per-task body step counts and every received value equal the "
    "reference (a doubled or skipped resumption shifts the values, which are unique per yield). "
    "(b) ladder DAGs (two tasks per level, each awaited by both tasks of the level above, 30-3000 levels, all blocked on one batch: every body runs once, one flush, and the run finishes - a scheduler that re-walks shared blocked subtrees needs 2^levels steps), deep chains (up to 250000 awaiting tasks, far beyond the recursion limit, plain and with a batch item per "
    "level) and wide fans (10000 siblings) with closed-form oracles; termination is decided by exact step counts and "
    "a watchdog with re-run-alone protocol. distinct = program hash / (shape, size); non-trivial = at least 2 task "
    "instances and 1 flush, or any deep/wide case."
)
RULE += (
    " One program in ten is a 'revisit' program (a task reached twice in one traversal, unblocked in between by "
    "a sibling's item.value()); a fifth have flush bodies that call asynq synchronously, a quarter cancel a "
    "pending batch by hand. Deep shape chain_known: 25000 links each yielding the next link, one request and "
    "48 already computed futures (one flush; no RuntimeError)."
)
ASSUMPTIONS = [
    "termination (a liveness claim) is restated as bounded progress: exact step counts plus a generous watchdog",
    "depth is sampled up to 250000 tasks, not 'however deep'",
]
UNIT_TIMEOUT = {"quick": 150, "thorough": 2400}

PROFILE_KW = dict(
    struct_depth_choices=[1, 2, 2, 3, 4],
    p_shared=0.7,
    p_item_fault=0.03,
    p_wrap=0.6,
    w_stmt=dict(raise_=0.15, orphan=0.8, cancelbatch=0.25),
    w_leaf=dict(again=2.0, err=0.15, junk=0.05, lazy=0.4, none=1.0, const=1.2),
    w_struct=dict(leaf=3, tuple=3, list=4, dict=1.5),
    lazy_modes=["ok", "sync", "sync", "raise"],
    p_ctx_sync=0.15,
    p_try_raise=0.3,
    kinds=3,
)
PROFILE = gen.profile(**PROFILE_KW)
# the same, with flush bodies that themselves call asynq synchronously (a service that needs another service);
# no direct item.value() here (see DESIGN 9.2 on that combination)
PROFILE_NS = gen.profile(**dict(PROFILE_KW, p_nestedsync=0.12, w_stmt=dict(raise_=0.15, orphan=0.8, syncitem=0)))
MONITORS = ("resume", "afterdone", "order", "orphans", "completion", "refeq")
HOWS = ["call", "value", "yielded", "yielded_value"]

DEEP_QUICK = [("chain", 20000), ("chain_known", 25000), ("chain_item", 1500), ("fan", 10000), ("chain_struct", 5000), ("fan_item", 3000), ("comb", 300), ("ladder", 30), ("ladder", 400), ("ladder_ctx", 14), ("ladder_ctx", 60)]
DEEP_THOROUGH = DEEP_QUICK + [("ladder", 60), ("ladder", 3000), ("ladder_ctx", 400), ("chain", 100000), ("chain", 250000), ("chain_item", 4000), ("fan", 60000), ("chain_struct", 50000), ("comb", 1500)]


def _shrunk(prog, how, pol, cs, oracle):
    small, runs = tl.shrink_for(prog, how, pol, cs, MONITORS, oracle)
    return {"shrunk_program": small, "shrink_runs": runs}


def plan(tier, seed, build, scale):
    n = int((2000 if tier == "quick" else 30000) * scale)
    per = max(1, n // (10 if tier == "quick" else 40))
    units = []
    a = 0
    while a < n:
        units.append({"cases": [a, min(n, a + per)], "nsched": 3 if tier == "quick" else 6, "mode": "tl"})
        a += per
    deep = DEEP_QUICK if tier == "quick" else DEEP_THOROUGH
    for j, d in enumerate(deep):
        units.append({"cases": [j, j + 1], "mode": "deep", "deep": list(d), "timeout": 200, "case_timeout": 120, "alone_timeout": 240})
    return units


def run_unit(unit, progress):
    if unit["mode"] == "deep":
        return run_deep(unit, progress)
    res = tl.new_result()
    c = res["counters"]

    def inc(k, n=1):
        c[k] = c.get(k, 0) + n

    a, b = unit["cases"]
    for i in range(a, b):
        progress(i)
        cs = tl.case_seed(unit["seed"], ID, i)
        prog = gen.generate(cs, PROFILE_NS if i % 5 == 3 else PROFILE)
        if i % 10 == 7:
            # a task reached twice in one traversal, unblocked in between by a sibling's item.value()
            prog = gen.revisit_program(random.Random(cs ^ 0x7E715))
            inc("revisit_programs")
        rnd = random.Random(cs ^ 0xC03)
        try:
            exp_rrt = ref.evaluate(prog)
        except lang.HarnessFault:
            inc("ref_budget_skips")
            continue
        exp, rrt = exp_rrt
        pols = tl.policies(prog, rnd, unit.get("nsched", 3))
        flushed = False
        bad = False
        for pi, pol in enumerate(pols):
            how = HOWS[(i + pi) % 4]
            rt, out, _e, _r = tl.execute(prog, how, pol, cs, MONITORS, rrt_exp=exp_rrt, keep_deps=(i + pi) % 4 == 3)
            res["evaluations"] += 1
            tl.harvest(rt, c)
            if any(ev[0] == "flush_body" for ev in rt.log):
                flushed = True
            # shared tasks with >= 2 awaiting parents
            if pi == 0:
                refs = {}
                for (_p, _k), leaves in rt.yield_leaves.items():
                    for l in leaves:
                        if l.kind == "shared":
                            refs.setdefault(l.path, set()).add(_p)
                inc("shared_tasks_with_2plus_awaiting_parents", sum(1 for v in refs.values() if len(v) >= 2))
                dup = 0
                for (_p, _k), leaves in rt.yield_leaves.items():
                    ids = [id(l.obj) for l in leaves if l.obj is not None and l.kind in ("call", "shared")]
                    if len(ids) != len(set(ids)):
                        dup += 1
                inc("yields_with_same_task_twice", dup)
            if rt.violations and not bad:
                bad = True
                for v in rt.violations[:3]:
                    res["violations"].append(
                        {
                            "oracle": v["oracle"],
                            "mechanism": v["oracle"],
                            "detail": dict({"how": how, "prio": pol, "violation": v["detail"], "program": prog}, **_shrunk(prog, how, pol, cs, v["oracle"])),
                            "case": {"cases": [i, i + 1]},
                        }
                    )
        inc("programs")
        c["max_depth"] = max(c.get("max_depth", 0), rrt.max_depth)
        if len(rrt.frames) >= 2 and flushed:
            res["nontrivial"].append(lang.struct_hash(prog))
        if len(res["samples"]) < 1 and 3 <= len(rrt.frames) <= 7 and flushed:
            res["samples"].append({"program": prog, "expected": tl.short(exp, 300)})
    return res


# ---------------------------------------------------------------------------
# deep chains / wide fans: closed-form oracles


def run_deep(unit, progress):
    import asynq
    from asynq import asynq as A
    from .. import harness

    res = tl.new_result()
    c = res["counters"]
    shape, n = unit["deep"]
    progress(unit["cases"][0])
    asynq.scheduler.reset()
    rt = harness.HarnessRT({"nodes": [], "kinds": 1})
    runs = [0] * (n + 2)
    bad = []
    order = []

    @A()
    def chain(k):
        runs[k] += 1
        if k == 0:
            return 0
        t = chain.asynq(k - 1)
        v = yield t
        if not t.is_computed():
            bad.append(("resumed-while-uncomputed", k))
        return v + 1

    @A()
    def chain_item(k):
        runs[k] += 1
        it = harness.HItem(rt, 0, "d%d" % k, ("deep", k))
        if k == 0:
            v = yield it
            return 0
        t = chain_item.asynq(k - 1)
        got = yield t, it
        if not (t.is_computed() and it.is_computed()):
            bad.append(("resumed-while-uncomputed", k))
        return got[0] + 1

    known = [asynq.ConstFuture(("known", j)) for j in range(48)]

    @A()
    def chain_known(k):
        # every link awaits the next link, one request AND four dozen futures that are computed already (cache hits)
        runs[k] += 1
        it = harness.HItem(rt, 0, "d%d" % k, ("deep", k))
        if k == 0:
            v = yield [it] + known
            return 0
        t = chain_known.asynq(k - 1)
        got = yield [t, it] + known
        if not (t.is_computed() and it.is_computed()) or got[2] != ("known", 0) or got[-1] != ("known", 47):
            bad.append(("resumed-while-uncomputed-or-with-wrong-values", k))
        return got[0] + 1

    @A()
    def chain_struct(k):
        runs[k] += 1
        if k == 0:
            return 0
        t = chain_struct.asynq(k - 1)
        sel = k % 4
        if sel == 0:
            v = (yield [t])[0]
        elif sel == 1:
            v = (yield {"a": t})["a"]
        elif sel == 2:
            v = (yield (None, (t,)))[1][0]
        else:
            v = yield t
        return v + 1

    @A()
    def leaf(i):
        order.append(i)
        runs[i] += 1
        return i * 2

    @A()
    def leaf_item(i):
        order.append(i)
        runs[i] += 1
        v = yield harness.HItem(rt, 0, "f%d" % i, ("fan", i))
        return (i, v[3])

    @A()
    def fan(m):
        ts = [leaf.asynq(i) for i in range(m)]
        got = yield ts
        return got

    @A()
    def fan_item(m):
        got = yield [leaf_item.asynq(i) for i in range(m)]
        return got

    @A()
    def comb_level(d, w):
        runs[d] += 1
        if d == 0:
            v = yield harness.HItem(rt, 0, "c", ("comb", d, w))
            return 1
        got = yield [comb_level.asynq(d - 1, 0)] + [leaf.asynq(0) for _ in range(3)]
        return got[0] + 1

    ladder_tasks = {}
    ctx_calls = [0]

    class LadderCtx(asynq.AsyncContext):
        def resume(self):
            ctx_calls[0] += 1

        def pause(self):
            ctx_calls[0] += 1

    @A()
    def rung(level, side):
        runs[2 * level + side] += 1
        if level == n:
            v = yield harness.HItem(rt, 0, "l%d" % side, ("ladder", side))
            return 1
        a = ladder_get(level + 1, 0)
        b = ladder_get(level + 1, 1)
        if shape == "ladder_ctx":
            # every rung waits inside a context of its own (paused and resumed around its suspensions)
            with LadderCtx():
                got = yield a, b
        else:
            got = yield a, b
        if not (a.is_computed() and b.is_computed()):
            bad.append(("resumed-while-uncomputed", level))
        return (got[0] + got[1]) % 1000003

    def ladder_get(level, side):
        # two tasks per level, each awaited by BOTH tasks of the level above (2n+2 tasks in all)
        if (level, side) not in ladder_tasks:
            ladder_tasks[(level, side)] = rung.asynq(level, side)
        return ladder_tasks[(level, side)]

    rt.attach()
    try:
        if shape in ("ladder", "ladder_ctx"):
            runs = [0] * (2 * n + 4)
            v = ladder_get(0, 0).value()
            flushes = sum(1 for e in rt.log if e[0] == "flush_body")
            started = sum(runs)
            ok = flushes == 1 and started == 2 * n + 1 and all(r <= 1 for r in runs) and all(t.is_computed() for t in ladder_tasks.values() if t is not ladder_tasks.get((0, 1)))
            detail = {"value": v, "flushes": flushes, "bodies_started": started, "tasks": 2 * n + 1, "context_callbacks": ctx_calls[0]}
            if shape == "ladder_ctx" and ctx_calls[0] > 40 * (n + 2) * (n + 2):
                # (pause/resume pairs may repeat when a shared rung is reached again, but not without bound)
                ok = False
        elif shape == "chain":
            v = chain(n)
            ok = v == n and all(r == 1 for r in runs[: n + 1])
            detail = {"value": v, "bodies_not_run_once": sum(1 for r in runs[: n + 1] if r != 1)}
        elif shape == "chain_item":
            v = chain_item(n)
            flushes = sum(1 for e in rt.log if e[0] == "flush_body")
            ok = v == n and all(r == 1 for r in runs[: n + 1]) and flushes == 1
            detail = {"value": v, "flushes": flushes, "expected_flushes": 1}
        elif shape == "chain_known":
            v = chain_known(n)
            flushes = sum(1 for e in rt.log if e[0] == "flush_body")
            ok = v == n and all(r == 1 for r in runs[: n + 1]) and flushes == 1
            detail = {"value": v, "flushes": flushes, "expected_flushes": 1}
        elif shape == "chain_struct":
            v = chain_struct(n)
            ok = v == n and all(r == 1 for r in runs[: n + 1])
            detail = {"value": v}
        elif shape == "fan":
            v = fan(n)
            ok = v == [i * 2 for i in range(n)] and order == list(range(n))
            detail = {"first_out_of_order": next((i for i, o in enumerate(order) if o != i), None), "started": len(order)}
        elif shape == "fan_item":
            v = fan_item(n)
            flushes = sum(1 for e in rt.log if e[0] == "flush_body")
            ok = [x[0] for x in v] == list(range(n)) and order == list(range(n)) and flushes == 1 and all(x[1] == ("fan", x[0]) for x in v)
            detail = {"flushes": flushes}
        elif shape == "comb":
            v = comb_level(n, 0)
            ok = v == n + 1 and all(r == 1 for r in runs[1 : n + 1])
            detail = {"value": v}
        else:
            raise lang.HarnessFault(shape)
    except lang.HarnessFault:
        raise
    except Exception as e:
        # value() of a finite acyclic program neither returned nor left every awaited task computed: it raised
        ok = False
        bad.append(("computation-raised", lang.exc_desc(e)))
        detail = {"raised": repr(e)[:200]}
    finally:
        rt.detach()
    res["evaluations"] = 1
    res["nontrivial"].append(hash((shape, n)) & 0xFFFFFFFFFF)
    c["deep_cases"] = 1
    c["deep_max_tasks"] = n
    c["deep_" + shape] = 1
    if bad or not ok:
        res["violations"].append(
            {
                "oracle": "deep-" + shape,
                "mechanism": "deep-" + shape,
                "detail": {"shape": shape, "n": n, "problems": bad[:5], "observed": detail},
                "case": {"cases": unit["cases"], "mode": "deep", "deep": unit["deep"]},
            }
        )
    res["samples"].append({"deep_case": [shape, n], "observed": detail})
    return res


def reach(c, tier):
    out = []
    for k in ("n_resume_checks", "n_order_checks", "n_orphans", "n_completion_checks", "shared_tasks_with_2plus_awaiting_parents", "yields_with_same_task_twice", "deep_cases"):
        if not c.get(k):
            out.append("%s is zero" % k)
    if c.get("deep_max_tasks", 0) < 1500:
        out.append("deep cases did not run")
    return out
