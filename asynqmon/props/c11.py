"""C11 - batch lifecycle: pending to flushed or cancelled, once; no item left pending."""
import itertools
import os
import random

from .. import tl
from ..lang import UserBaseErr, UserErr, exc_desc

class FalsyErr(Exception):
    """An exception object whose truth value is False (e.g. an aggregate error over an empty key list)."""

    def __len__(self):
        return 0


ID = "C11"
LEVEL = "exploration"
RULE = (
    "operation sequences over {add item to this batch, add item through the kind's active-batch registry, flush, "
    "cancel, cancel(error), cancel(falsy error object), last item.value(), first item.error(), batch.value(), batch.error(), state queries} x flush "
    "body mode {sets all, sets some, sets none, sets item errors, raises Exception part-way, raises BaseException "
    "part-way, creates a new item while flushing, sets an item twice, cancels its own batch after serving the first item and returns normally} x user code running WHILE the batch completes {none, a _cancel() hook that hands default values to the still-open items, an item on_computed callback that gives the next open sibling a fallback value} on a BatchBase subclass, and the same operations "
    "on the built-in DebugBatch/DebugBatchItem: ALL sequences up to length 4 (thorough: 5) plus seeded random longer "
    "ones, both builds. Every result/exception is compared with a reference state machine (pending -> flushed | "
    "cancelled, per-item outcomes); a subscriber on the batch's on_computed checks every item is already complete; "
    "flush-body run counts, never-raising flush()/cancel(), BatchingError on 2nd flush, AssertionError on adding to a "
    "finished batch, and that an item created during the flush joined a different, pending batch. "
    "distinct = (class, mode, sequence); non-trivial = the batch finished and something was observed afterwards."
)
RULE += (
    " After every operation on a finished batch: its item list never grows (also after an add-item that was "
    "rightly refused) and lists no pending item. Hook kind followup: the _cancel() hook sends a new request "
    "through the service's active batch; it must join a fresh batch and be served."
)
ASSUMPTIONS = ["items are not completed by hand before the flush (that is C10's territory)"]
UNIT_TIMEOUT = {"quick": 300, "thorough": 2400}

OPS = ["add", "add_reg", "flush", "cancel", "cancel_err", "cancel_falsy", "item_value", "item_error", "batch_value", "batch_error", "query"]
BASE_MODES = ["all", "some", "none", "itemerr", "raise", "raise_base", "raise_falsy", "spawn", "double", "cancel_self"]
# user code that completes still-open items WHILE the batch is being completed: a _cancel() hook handing out
# defaults (the documented purpose of _cancel), or an item's on_computed callback giving its next sibling a fallback
HOOKS = ["cancel_defaults", "sibling"]
MODES = BASE_MODES + [m + "+" + h for m in ("all", "some", "none", "itemerr", "raise", "raise_base", "cancel_self") for h in HOOKS]
# ... or a _cancel() hook that sends a follow-up request of the same kind ("discard what I asked for") through the
# service's active batch: it must land on a FRESH batch, the cancelled one is no longer the active one by then
MODES += [m + "+followup" for m in ("all", "none", "raise", "cancel_self")]


def split_mode(mode):
    m, _, h = mode.partition("+")
    return m, (h or None)


def plan(tier, seed, build, scale):
    units = []
    n = 4 if tier == "quick" else 5
    for m in MODES:
        deep = tier == "thorough" and m in ("all", "raise", "spawn", "none+sibling", "raise+cancel_defaults")
        units.append({"mode": "exhaustive", "cls": "h", "body": m, "maxlen": n + (1 if deep else 0), "cases": [0, 1], "timeout": 2400, "case_timeout": 150})
    units.append({"mode": "exhaustive", "cls": "debug", "body": "all", "maxlen": n, "cases": [0, 1]})
    nr = int((3000 if tier == "quick" else 60000) * scale)
    per = max(1, nr // 7)
    a = 0
    while a < nr:
        units.append({"mode": "random", "cases": [a, min(nr, a + per)]})
        a += per
    return units


_cls = {}


def classes():
    if _cls:
        return _cls
    from asynq import BatchBase, BatchItemBase

    class Batch(BatchBase):
        def __init__(self, reg, mode):
            BatchBase.__init__(self)
            self.reg = reg
            self.mode, self.hook = split_mode(mode)
            self.body_runs = 0
            self.cancel_hooks = 0
            self.followups = []
            self.active_during_body = None
            self.spawned = None
            self.flush_exc = None
            self.on_computed.subscribe(self._announce)
            self.items_complete_at_announce = None

        def _announce(self, _b):
            self.items_complete_at_announce = [it.is_computed() for it in self.all_items]

        def _try_switch_active_batch(self):
            if self.reg.get("active") is self:
                self.reg["active"] = None

        def _cancel(self):
            self.cancel_hooks += 1
            if self.hook == "cancel_defaults":
                for i, it in enumerate(self.all_items):
                    if not it.is_computed():
                        it.set_value(("default", i))
            elif self.hook == "followup":
                fu = new_item(self.reg, "all")
                self.followups.append((fu.batch is self, fu))
                if fu.batch is not self:
                    # served at once; the service is left without an active batch, as cancel() leaves it
                    fu.batch.flush()
                    if self.reg.get("active") is fu.batch:
                        self.reg["active"] = None

        def _flush(self):
            self.body_runs += 1
            self.active_during_body = self.reg.get("active") is self
            m = self.mode
            items = list(self.items)
            if m == "spawn":
                self.spawned = new_item(self.reg, m)
            for i, it in enumerate(items):
                if m in ("all", "spawn"):
                    it.set_value(("iv", i))
                elif m == "some":
                    if i % 2 == 0:
                        it.set_value(("iv", i))
                elif m == "itemerr":
                    it.set_error(UserErr(("itemerr", i)))
                elif m in ("raise", "raise_base", "raise_falsy"):
                    if i == 0:
                        it.set_value(("iv", i))
                    else:
                        self.flush_exc = {"raise": UserErr, "raise_base": UserBaseErr, "raise_falsy": FalsyErr}[m](("flush",))
                        raise self.flush_exc
                elif m == "double":
                    it.set_value(("iv", i))
                    it.set_value(("iv2", i))
                elif m == "cancel_self":
                    # the backend served the first request, lost the connection, gives up on the rest
                    if i == 0:
                        it.set_value(("iv", i))
                    else:
                        self.flush_exc = UserErr(("connection-lost",))
                        self.cancel(self.flush_exc)
                        return
            if m in ("raise", "raise_base", "raise_falsy") and len(items) <= 1:
                self.flush_exc = {"raise": UserErr, "raise_base": UserBaseErr, "raise_falsy": FalsyErr}[m](("flush",))
                raise self.flush_exc

    class Item(BatchItemBase):
        def __init__(self, batch):
            BatchItemBase.__init__(self, batch)
            batch.all_items.append(self)
            self.idx = len(batch.all_items) - 1
            if batch.hook == "sibling":
                self.on_computed.subscribe(self._fallback_for_sibling)

        def _fallback_for_sibling(self, _me):
            # when the batch has finished and left this request without an answer, the next request (if still
            # open) is given a fallback value
            b = self.batch
            if b.is_computed() and self.error() is not None and self.idx + 1 < len(b.all_items):
                nxt = b.all_items[self.idx + 1]
                if not nxt.is_computed():
                    nxt.set_value(("fallback", nxt.idx))

    _cls["Batch"] = Batch
    _cls["Item"] = Item
    return _cls


def new_item(reg, mode):
    c = classes()
    b = reg.get("active")
    if b is None:
        b = c["Batch"](reg, mode)
        b.all_items = []
        reg["active"] = b
        reg["batches"].append(b)
    return c["Item"](b)


class Model(object):
    def __init__(self, mode, nitems):
        self.mode, self.hook = split_mode(mode)
        self.state = "pending"
        self.n = nitems
        self.err = None
        self.item_out = None
        self.body_runs = 0

    def finish_by_body(self):
        self.body_runs += 1
        m = self.mode
        n = self.n
        out = []  # None = the body left the item open
        berr = None
        for i in range(n):
            if m in ("all", "spawn"):
                out.append(("val", ("iv", i)))
            elif m == "some":
                out.append(("val", ("iv", i)) if i % 2 == 0 else None)
            elif m == "none":
                out.append(None)
            elif m == "itemerr":
                out.append(("exc", ("UserErr", ("itemerr", i))))
            elif m in ("raise", "raise_base", "raise_falsy"):
                out.append(("val", ("iv", 0)) if i == 0 else None)
                berr = ({"raise": "UserErr", "raise_base": "UserBaseErr", "raise_falsy": "FalsyErr"}[m], ("flush",))
            elif m == "double":
                out.append(("val", ("iv", 0)) if i == 0 else None)
                berr = ("FutureIsAlreadyComputed",)
            elif m == "cancel_self":
                out.append(("val", ("iv", 0)) if i == 0 else None)
                if i > 0:
                    berr = ("UserErr", ("connection-lost",))
        if m in ("raise", "raise_base", "raise_falsy") and n <= 1:
            berr = ({"raise": "UserErr", "raise_base": "UserBaseErr", "raise_falsy": "FalsyErr"}[m], ("flush",))
        self._complete(out, berr)

    def finish_by_cancel(self, d):
        self._complete([None] * self.n, d)

    def _complete(self, out, berr):
        """What completing the batch does to the items still open (BatchBase._computed), including the user
        code that runs meanwhile."""
        cancelled = berr is not None
        if cancelled and self.hook == "cancel_defaults":
            out = [("val", ("default", i)) if o is None else o for i, o in enumerate(out)]
        e = berr if cancelled else ("Unset",)
        for i in range(len(out)):
            if out[i] is None:
                out[i] = ("exc", e)
                if self.hook == "sibling" and i + 1 < len(out) and out[i + 1] is None:
                    out[i + 1] = ("val", ("fallback", i + 1))
        self.item_out = out
        self.err = berr
        self.state = "flushed" if berr is None else "cancelled"


def xdesc(e):
    from asynq import BatchCancelledError, BatchingError, FutureIsAlreadyComputed

    if isinstance(e, FutureIsAlreadyComputed):
        return ("FutureIsAlreadyComputed",)
    if isinstance(e, BatchCancelledError):
        return ("BatchCancelledError",)
    if isinstance(e, BatchingError):
        return ("BatchingError",)
    if isinstance(e, FalsyErr):
        return ("FalsyErr", e.args[0] if e.args else None)
    return exc_desc(e)


def run_h(mode, seq):
    import asynq

    asynq.scheduler.reset()
    reg = {"active": None, "batches": []}
    items = [new_item(reg, mode), new_item(reg, mode)]
    b = reg["active"]
    m = Model(mode, 2)
    mode, hook = split_mode(mode)
    viol = []
    finished_then_observed = False
    reached = set()

    def expect_item(i):
        return m.item_out[i]

    size_when_closed = []
    for step, op in enumerate(seq):
        exp = None
        # ---------------- expected
        if op == "add":
            if m.state == "pending":
                exp = ("ret", "added")
                m.n += 1
            else:
                exp = ("raise", ("AssertionError",))
                reached.add("add_after_finish")
        elif op == "add_reg":
            exp = ("ret", "joined-this" if m.state == "pending" else "joined-other")
            if m.state == "pending":
                m.n += 1
        elif op == "flush":
            if m.state == "pending":
                m.finish_by_body()
                exp = ("ret", None)
                if m.err is not None:
                    reached.add("failing_body")
                if mode == "raise_base":
                    reached.add("baseexception_body")
            else:
                exp = ("raise", ("BatchingError",))
                reached.add("double_flush")
        elif op in ("cancel", "cancel_err", "cancel_falsy"):
            if m.state == "pending":
                m.finish_by_cancel(("BatchCancelledError",) if op == "cancel" else (("UserErr", ("cancel", step)) if op == "cancel_err" else ("FalsyErr", ("cancel", step))))
            else:
                reached.add("cancel_after_finish")
            exp = ("ret", None)
        elif op in ("item_value", "item_error"):
            idx = m.n - 1 if op == "item_value" else 0
            if m.state == "pending":
                m.finish_by_body()
                reached.add("item_access_flushes")
            o = expect_item(idx)
            if op == "item_value":
                exp = ("ret", o[1]) if o[0] == "val" else ("raise", o[1])
            else:
                exp = ("ret", None) if o[0] == "val" else ("ret", o[1])
            finished_then_observed = True
        elif op in ("batch_value", "batch_error"):
            if m.state == "pending":
                m.finish_by_body()
            if op == "batch_value":
                exp = ("ret", None) if m.err is None else ("raise", m.err)
            else:
                exp = ("ret", m.err)
            finished_then_observed = True
        elif op == "query":
            exp = ("ret", (m.state != "pending", m.state == "cancelled", m.n == 0 if m.state == "pending" else None))
            if m.state != "pending":
                finished_then_observed = True
        # ---------------- actual
        try:
            if op == "add":
                it = classes()["Item"](b)
                items.append(it)
                got = ("ret", "added")
            elif op == "add_reg":
                it = new_item(reg, mode)
                if it.batch is b:
                    items.append(it)
                    got = ("ret", "joined-this")
                else:
                    got = ("ret", "joined-other")
                    if it.batch.is_flushed():
                        viol.append(("item-joined-finished-batch", {"step": step}))
            elif op == "flush":
                got = ("ret", b.flush())
            elif op == "cancel":
                got = ("ret", b.cancel())
            elif op == "cancel_err":
                got = ("ret", b.cancel(UserErr(("cancel", step))))
            elif op == "cancel_falsy":
                got = ("ret", b.cancel(FalsyErr(("cancel", step))))
            elif op == "item_value":
                got = ("ret", items[-1].value())
            elif op == "item_error":
                got = ("ret", xdesc(items[0].error()))
            elif op == "batch_value":
                got = ("ret", b.value())
            elif op == "batch_error":
                got = ("ret", xdesc(b.error()))
            else:
                fin = b.is_flushed()
                got = ("ret", (fin, b.is_cancelled(), b.is_empty() if not fin else None))
        except AssertionError as e:
            got = ("raise", ("AssertionError",)) if "already flushed" in str(e) else ("raise", xdesc(e))
        except BaseException as e:
            got = ("raise", xdesc(e))
        if got != exp:
            viol.append(("operation-result", {"step": step, "op": op, "expected": exp, "observed": got}))
            break
        if closed_batch_problem(b, size_when_closed, viol, step, op):
            break
    if not viol:
        if b.body_runs != m.body_runs:
            viol.append(("flush-body-run-count", {"expected": m.body_runs, "observed": b.body_runs}))
        if m.state != "pending":
            if b.items_complete_at_announce is None:
                viol.append(("batch-completion-never-announced", {}))
            elif not all(b.items_complete_at_announce):
                viol.append(("batch-announced-before-items-complete", {"items_complete": b.items_complete_at_announce}))
            for i, it in enumerate(b.all_items):
                if not it.is_computed():
                    viol.append(("item-left-pending", {"item": i}))
                    break
                o = ("val", it.value()) if it.error() is None else ("exc", xdesc(it.error()))
                if i < len(m.item_out) and o != m.item_out[i]:
                    viol.append(("item-outcome", {"item": i, "expected": m.item_out[i], "observed": o}))
                    break
            if hook == "followup":
                for on_self, fu in b.followups:
                    reached.add("followup_request_from_cancel_hook")
                    if on_self or not fu.is_computed() or fu.error() is not None:
                        viol.append(("request-made-by-the-cancel-hook-did-not-join-a-fresh-batch", {"joined_the_cancelled_batch": on_self, "computed": fu.is_computed()}))
                        break
            if m.body_runs:
                if b.active_during_body:
                    viol.append(("batch-still-active-during-its-flush", {}))
                if mode == "spawn":
                    reached.add("item_created_in_flush")
                    sp = b.spawned
                    if sp is None or sp.batch is b or sp.batch.is_flushed():
                        viol.append(("item-created-during-flush-did-not-join-fresh-batch", {}))
            # same error instance for every leftover item
            if hook is None and mode in ("raise", "raise_base", "raise_falsy") and m.body_runs and b.flush_exc is not None:
                for it in b.all_items[1:]:
                    if it.error() is not b.flush_exc:
                        viol.append(("leftover-item-error-is-not-the-flush-exception", {}))
                        break
    return viol, finished_then_observed, reached


def run_debug(seq):
    """The same operations on the built-in DebugBatch."""
    import asynq
    from asynq.batching import DebugBatchItem, _debug_batch_state

    asynq.scheduler.reset()
    _debug_batch_state.batches.clear()
    name = "c11"
    items = [DebugBatchItem(name, ("r", 0)), DebugBatchItem(name, ("r", 1))]
    b = items[0].batch
    m = Model("all", 2)
    m_results = [("r", 0), ("r", 1)]
    viol = []
    reached = set()
    fto = False

    def finish_body():
        m.body_runs += 1
        m.item_out = [("val", r) for r in m_results]
        m.err = None
        m.state = "flushed"

    size_when_closed = []
    for step, op in enumerate(seq):
        exp = None
        if op == "add":
            if m.state == "pending":
                exp = ("ret", "added")
                m.n += 1
                m_results.append(None)
            else:
                exp = ("raise", ("AssertionError",))
                reached.add("add_after_finish")
        elif op == "add_reg":
            exp = ("ret", "joined-this" if m.state == "pending" else "joined-other")
            if m.state == "pending":
                m.n += 1
                m_results.append(("r", "reg", step))
        elif op == "flush":
            if m.state == "pending":
                finish_body()
                exp = ("ret", None)
            else:
                exp = ("raise", ("BatchingError",))
                reached.add("double_flush")
        elif op in ("cancel", "cancel_err", "cancel_falsy"):
            if m.state == "pending":
                m.finish_by_cancel(("BatchCancelledError",) if op == "cancel" else (("UserErr", ("cancel", step)) if op == "cancel_err" else ("FalsyErr", ("cancel", step))))
            else:
                reached.add("cancel_after_finish")
            exp = ("ret", None)
        elif op in ("item_value", "item_error"):
            idx = m.n - 1 if op == "item_value" else 0
            if m.state == "pending":
                finish_body()
                reached.add("item_access_flushes")
            o = m.item_out[idx]
            if op == "item_value":
                exp = ("ret", o[1]) if o[0] == "val" else ("raise", o[1])
            else:
                exp = ("ret", None) if o[0] == "val" else ("ret", o[1])
            fto = True
        elif op in ("batch_value", "batch_error"):
            if m.state == "pending":
                finish_body()
            if op == "batch_value":
                exp = ("ret", None) if m.err is None else ("raise", m.err)
            else:
                exp = ("ret", m.err)
            fto = True
        elif op == "query":
            exp = ("ret", (m.state != "pending", m.state == "cancelled", m.n == 0 if m.state == "pending" else None))
        try:
            if op == "add":
                # DebugBatchItem always goes through the registry; add to *this* batch explicitly
                from asynq import BatchItemBase

                class _Direct(DebugBatchItem):
                    def __init__(self, batch):
                        BatchItemBase.__init__(self, batch)
                        self._result = None

                it = _Direct(b)
                items.append(it)
                got = ("ret", "added")
            elif op == "add_reg":
                it = DebugBatchItem(name, ("r", "reg", step))
                if it.batch is b:
                    items.append(it)
                    got = ("ret", "joined-this")
                else:
                    got = ("ret", "joined-other")
                    if it.batch.is_flushed():
                        viol.append(("item-joined-finished-batch", {"step": step}))
            elif op == "flush":
                got = ("ret", b.flush())
            elif op == "cancel":
                got = ("ret", b.cancel())
            elif op == "cancel_err":
                got = ("ret", b.cancel(UserErr(("cancel", step))))
            elif op == "cancel_falsy":
                got = ("ret", b.cancel(FalsyErr(("cancel", step))))
            elif op == "item_value":
                got = ("ret", items[-1].value())
            elif op == "item_error":
                got = ("ret", xdesc(items[0].error()))
            elif op == "batch_value":
                got = ("ret", b.value())
            elif op == "batch_error":
                got = ("ret", xdesc(b.error()))
            else:
                fin = b.is_flushed()
                got = ("ret", (fin, b.is_cancelled(), b.is_empty() if not fin else None))
        except AssertionError as e:
            got = ("raise", ("AssertionError",)) if "already flushed" in str(e) else ("raise", xdesc(e))
        except BaseException as e:
            got = ("raise", xdesc(e))
        if got != exp:
            viol.append(("operation-result", {"step": step, "op": op, "expected": exp, "observed": got, "class": "DebugBatch"}))
            break
        if closed_batch_problem(b, size_when_closed, viol, step, op):
            break
    if not viol and m.state != "pending":
        for i, it in enumerate(items):
            if not it.is_computed():
                viol.append(("item-left-pending", {"item": i, "class": "DebugBatch"}))
                break
        if _debug_batch_state.batches.get(name) is b:
            viol.append(("finished-batch-still-active", {"class": "DebugBatch"}))
    return viol, fto, reached


def closed_batch_problem(b, mem, viol, step, op):
    """A finished batch stays closed: whatever is (still) listed in it is complete, and the list never grows -
    also after an add-item that was, rightly, refused."""
    try:
        if not b.is_flushed():
            return False
        n = len(b.items)
        if not mem:
            mem.append(n)
        if n > mem[0]:
            viol.append(("finished-batch-grew", {"step": step, "op": op, "items_when_it_finished": mem[0], "items_now": n}))
            return True
        mem[0] = n
        for it in b.items:
            if not it.is_computed():
                viol.append(("pending-item-listed-in-a-finished-batch", {"step": step, "op": op}))
                return True
    except BaseException as e:
        viol.append(("state-query-raised", {"step": step, "op": op, "exc": xdesc(e)}))
        return True
    return False


def run_unit(unit, progress):
    res = tl.new_result()
    c = res["counters"]
    devnull = os.open(os.devnull, os.O_WRONLY)
    os.dup2(devnull, 1)
    os.dup2(devnull, 2)

    def one(cls, mode, seq):
        tl.tick()
        if cls == "h":
            viol, nt, reached = run_h(mode, seq)
        else:
            viol, nt, reached = run_debug(seq)
        res["evaluations"] += 1
        c["sequences_" + cls] = c.get("sequences_" + cls, 0) + 1
        for r in reached:
            c["reached_" + r] = c.get("reached_" + r, 0) + 1
        if nt:
            res["nontrivial"].append(hash((cls, mode, tuple(seq))) & 0xFFFFFFFFFFFF)
        if viol and len(res["violations"]) < 6:
            for v in viol[:2]:
                res["violations"].append(
                    {
                        "oracle": v[0],
                        "mechanism": v[0],
                        "detail": {"class": cls, "body_mode": mode, "sequence": list(seq), "violation": v[1]},
                        "case": dict(unit, one=[cls, mode, list(seq)]),
                    }
                )

    if "one" in unit:
        one(*unit["one"])
        return res
    if unit["mode"] == "exhaustive":
        progress(0)
        for L in range(1, unit["maxlen"] + 1):
            for seq in itertools.product(OPS, repeat=L):
                one(unit["cls"], unit["body"], seq)
        c["exhaustive_units"] = 1
        res["samples"].append({"class": unit["cls"], "body_mode": unit["body"], "sequence": ["add_reg", "item_value", "flush", "cancel"], "note": "every sequence up to length %d was run" % unit["maxlen"]})
    else:
        a, b = unit["cases"]
        for i in range(a, b):
            progress(i)
            rnd = random.Random(tl.case_seed(unit["seed"], ID, i))
            cls = rnd.choice(["h", "h", "h", "debug"])
            mode = rnd.choice(MODES)
            seq = [rnd.choice(OPS) for _ in range(rnd.randint(5, 12))]
            one(cls, mode, seq)
            c["random_sequences"] = c.get("random_sequences", 0) + 1
    return res


def reach(c, tier):
    out = []
    for k in ("reached_double_flush", "reached_cancel_after_finish", "reached_add_after_finish", "reached_failing_body", "reached_baseexception_body", "reached_item_created_in_flush", "reached_item_access_flushes", "sequences_h", "sequences_debug", "random_sequences"):
        if not c.get(k):
            out.append("%s is zero" % k)
    return out
