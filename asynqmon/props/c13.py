"""C13 - async caches behave like their reference cache for every call history."""
import gc
import itertools
import random

from .. import tl
from ..lang import UserErr, exc_desc

ID = "C13"
LEVEL = "exploration"
RULE = (
    "seeded sequential call histories (length 6-30) over small key spaces (in 30% of them different keys with EQUAL hashes: -1 / -2) against alru_cache (function and method; "
    "maxsize 1-4; default key and a custom key_fn; also ONE alru_cache(...) decorator object applied to two functions, which keep separate caches and capacities), acached_per_instance (1-3 instances, instances dropped and "
    "garbage-collected mid-history, two different keys awaited in one yield) and alazy_constant (ttl 0 / >0 with a "
    "scripted clock assigned to asynq.tools.utime, dirty()); every call uses one of 6 spellings of the same arguments "
    "(positional, keyword, mixed, defaults omitted, keyword-only); bodies return a fresh token per execution (sometimes a falsy object or None - a cached falsy value is still a hit), block on a "
    "batch item or not, and raise on demand. Reference: LRU dict with recency update on hit / per-instance dict / "
    "refresh-time model, keyed on the arguments normalised through the wrapped signature (or key_fn). 'Hit' vs 'miss' is "
    "read off the returned token and the execution log. distinct = (cache kind, history hash); non-trivial = the "
    "history has at least one hit and one miss after the first call."
)
RULE += (
    " Lazy-constant histories also contain 'race' steps: a sibling task calls dirty() while the refresh is "
    "suspended on a batch item (the next call must recompute). Per-instance histories also ask for the same "
    "key twice in one yield (both bodies run, each call gets its own result) and for two keys of which one "
    "body raises; lru_method histories drop instances and create them anew; lazy-constant histories contain a "
    "second race (a refresh overtaken by dirty() finishing after the recomputation). 30% of the histories of "
    "lru_fn / lru_method / per_instance use a signature whose first parameter is positional-only; pair_fail "
    "steps also make BOTH bodies fail (each call must end with its own body's exception). Lazy step race3: a "
    "failing computation that finishes after a successful overlapping one must not disturb the stored value."
)
ASSUMPTIONS = [
    "calls of one history are sequential (each completes before the next), except the explicit steps that put several calls in flight at once (two keys on the per-instance cache; 2-5 calls incl. repeated keys on the LRU caches, where the model stores results in the observed completion order)",
    "the scripted clock never reports 0 and never sits exactly on a ttl boundary (the statement does not fix the boundary side)",
]
UNIT_TIMEOUT = {"quick": 200, "thorough": 2400}

ENV = None


class Env(object):
    def __init__(self, rt):
        self.rt = rt
        self.execs = []  # (fn name, normalised args, token)
        self.tok = itertools.count(1)
        self.fail_next = False
        self.fail_keys = set()
        self.block = False
        self.items = itertools.count()
        self.now = 1000


class FalsyTok(object):
    """A unique but FALSY result value (think: an empty result object)."""

    def __init__(self, name, t):
        self.name = name
        self.t = t

    def __bool__(self):
        return False

    def __eq__(self, other):
        return isinstance(other, FalsyTok) and (other.name, other.t) == (self.name, self.t)

    def __hash__(self):
        return hash((self.name, self.t))

    def __repr__(self):
        return "FalsyTok(%r, %r)" % (self.name, self.t)


def tokval(name, t):
    """What the t-th body execution returns: mostly a unique tuple, sometimes a falsy object or None."""
    if t % 5 == 1:
        return FalsyTok(name, t)
    if t % 7 == 3:
        return None
    return ("tok", name, t)


def body(name, a, b, c):
    from .. import harness

    e = ENV
    t = next(e.tok)
    e.execs.append((name, (a, b, c), t))
    for _round in range(int(e.block)):  # (True: one request; 2: two requests one after the other)
        yield harness.HItem(e.rt, 0, "c%d" % next(e.items), ("c13", t))
    if e.fail_next or (a, b, c) in e.fail_keys:
        e.fail_next = False
        raise UserErr(("body", name, t))
    return tokval(name, t)


POSONLY = False  # the functions of the current history take their first parameter positionally only


def spell(key, s):
    a, b, c = key
    s = s % 6
    if POSONLY and s in (2, 3):
        s -= 2
    if s == 0:
        args, kw = (a, b), {"c": c}
    elif s == 1:
        args, kw = (a,), {"b": b, "c": c}
    elif s == 2:
        args, kw = (), {"a": a, "b": b, "c": c}
    elif s == 3:
        args, kw = (), {"c": c, "a": a, "b": b}
    elif s == 4:
        args, kw = (a, b), {"c": c}
        if b == 2:
            args = (a,)
    else:
        args, kw = (a,), {"b": b, "c": c}
        if b == 2:
            kw.pop("b")
    if c == 3 and s in (0, 2, 5):
        kw.pop("c")
    return args, kw


def key_fn_parity(args, kwargs):
    a = args[0] if args else kwargs["a"]
    return a % 2


def key_fn_parity_method(args, kwargs):
    a = args[1] if len(args) > 1 else kwargs["a"]
    return (id(args[0]), a % 2)


def build(kind, maxsize, posonly=False):
    from asynq import asynq as A
    from asynq.tools import acached_per_instance, alazy_constant, alru_cache

    if posonly and kind == "lru_fn":
        @alru_cache(maxsize=maxsize)
        @A()
        def f(a, /, b=2, *, c=3):
            return (yield from body("f", a, b, c))

        return f, None
    if posonly and kind == "lru_method":
        class K(object):
            @alru_cache(maxsize=maxsize)
            @A()
            def m(self, a, /, b=2, *, c=3):
                return (yield from body("m", a, b, c))

        return None, K
    if posonly and kind == "per_instance":
        class K(object):
            @acached_per_instance()
            @A()
            def m(self, a, /, b=2, *, c=3):
                return (yield from body("m", a, b, c))

        return None, K
    if kind == "lru_fn":
        @alru_cache(maxsize=maxsize)
        @A()
        def f(a, b=2, *, c=3):
            return (yield from body("f", a, b, c))

        return f, None
    if kind == "lru_keyfn":
        @alru_cache(maxsize=maxsize, key_fn=key_fn_parity)
        @A()
        def f(a, b=2, *, c=3):
            return (yield from body("f", a, b, c))

        return f, None
    if kind in ("lru_shared_deco", "lru_shared_deco_keyfn"):
        # ONE decorator object applied to two functions (cached = alru_cache(...); @cached ... @cached ...):
        # each function still has a cache (and a capacity) of its own
        cached = alru_cache(maxsize=maxsize, key_fn=key_fn_parity) if kind.endswith("keyfn") else alru_cache(maxsize=maxsize)

        @cached
        @A()
        def f(a, b=2, *, c=3):
            return (yield from body("i0", a, b, c))

        @cached
        @A()
        def g(a, b=2, *, c=3):
            return (yield from body("i1", a, b, c))

        return {"i0": f, "i1": g}, None
    if kind == "lru_method":
        class K(object):
            @alru_cache(maxsize=maxsize)
            @A()
            def m(self, a, b=2, *, c=3):
                return (yield from body("m", a, b, c))

        return None, K
    if kind == "per_instance":
        class K(object):
            @acached_per_instance()
            @A()
            def m(self, a, b=2, *, c=3):
                return (yield from body("m", a, b, c))

        return None, K
    raise AssertionError(kind)


class LRU(object):
    def __init__(self, cap):
        self.cap = cap
        self.d = {}
        self.order = []

    def get(self, k):
        if k in self.d:
            self.order.remove(k)
            self.order.append(k)
            return True, self.d[k]
        return False, None

    def put(self, k, v):
        if k in self.d:
            self.order.remove(k)
        elif len(self.d) >= self.cap:
            old = self.order.pop(0)
            del self.d[old]
        self.d[k] = v
        self.order.append(k)


def run_history(kind, hist, seed):
    """hist: dict with maxsize, ops. Returns (violations, stats)."""
    global ENV
    import asynq
    from asynq import asynq as A
    from .. import harness

    asynq.scheduler.reset()
    rt = harness.HarnessRT({"nodes": [], "kinds": 1})
    env = Env(rt)
    ENV = env
    viol = []
    stats = {"hits": 0, "misses": 0, "evictions": 0, "raises": 0, "spelling_pairs": 0, "gc_checks": 0, "parallel": 0, "recomputes": 0}
    seen_spell = {}

    if kind == "lazy":
        return run_lazy(hist, env, stats)

    global POSONLY
    POSONLY = bool(hist.get("posonly"))
    if POSONLY:
        stats["histories_with_a_positional_only_parameter"] = 1
    f, K = build(kind, hist["maxsize"], POSONLY)
    insts = {}
    model = LRU(hist["maxsize"]) if kind.startswith("lru") else None
    models = {}
    shared_deco = kind.startswith("lru_shared_deco")
    pmodel = {}  # per instance name -> dict

    def norm_key(kind, iname, key, args, kw):
        if kind in ("lru_keyfn", "lru_shared_deco_keyfn"):
            return ("kf", key_fn_parity(args, kw))
        if kind == "lru_method":
            # (an instance that was dropped and created anew under the same name is ANOTHER instance)
            return (iname, generation.get(iname, 0)) + tuple(key)
        return tuple(key)

    results = []
    dead_later = []
    generation = {}

    @A()
    def driver():
        for op in hist["ops"]:
            if op[0] == "call":
                _, iname, key, sp, block, fail = op
                key = tuple(key)
                args, kw = spell(key, sp)
                env.block = block
                env.fail_next = fail
                nexec = len(env.execs)
                target = f
                m_ = model
                if shared_deco:
                    target = f[iname]
                    m_ = models.setdefault(iname, LRU(hist["maxsize"]))
                if K is not None:
                    if iname not in insts:
                        insts[iname] = K()
                    target = insts[iname].m
                nk = norm_key(kind, iname, key, args, kw)
                if m_ is not None:
                    hit, stored = m_.get(nk)
                else:
                    d = pmodel.setdefault(iname, {})
                    hit, stored = (nk in d), d.get(nk)
                try:
                    v = yield target.asynq(*args, **kw)
                    out = ("val", v)
                except UserErr as e:
                    out = ("exc", exc_desc(e))
                    e = None
                target = None
                env.fail_next = False
                ran = len(env.execs) - nexec
                sk = (nk,)
                if sk in seen_spell and seen_spell[sk] != sp % 6:
                    stats["spelling_pairs"] += 1
                seen_spell.setdefault(sk, sp % 6)
                if hit:
                    stats["hits"] += 1
                    if ran != 0:
                        viol.append(("body-ran-on-a-hit", {"op": op, "key": nk}))
                    if out != ("val", stored):
                        viol.append(("hit-returned-wrong-value", {"op": op, "expected": stored, "observed": out}))
                else:
                    stats["misses"] += 1
                    if ran != 1:
                        viol.append(("miss-did-not-run-body-once", {"op": op, "executions": ran, "key": nk, "returned": out}))
                    else:
                        name, nargs, tok = env.execs[-1]
                        if nargs != key:
                            viol.append(("body-received-other-arguments", {"op": op, "body_got": nargs}))
                        if fail:
                            stats["raises"] += 1
                            if out[0] != "exc":
                                viol.append(("raising-body-did-not-raise-to-caller", {"op": op, "observed": out}))
                        else:
                            want = ("val", tokval(name, tok))
                            if out != want:
                                viol.append(("miss-returned-wrong-value", {"op": op, "expected": want, "observed": out}))
                            if m_ is not None:
                                if len(m_.d) >= m_.cap and nk not in m_.d:
                                    stats["evictions"] += 1
                                m_.put(nk, out[1])
                            else:
                                pmodel[iname][nk] = out[1]
                if viol:
                    return
            elif op[0] == "gather":
                # several calls (same and different keys) in flight at once on a bounded LRU cache: everything that
                # misses runs its body; results are stored in completion order, hits refresh recency when they run
                _, iname, calls = op
                env.block = True
                env.fail_next = False
                m_ = models.setdefault(iname, LRU(hist["maxsize"])) if shared_deco else model
                tasks = []
                order = []
                plan_ = []
                nexec = len(env.execs)
                if K is not None and iname not in insts:
                    insts[iname] = K()
                for ci, (key, sp) in enumerate(calls):
                    key = tuple(key)
                    args, kw = spell(key, sp)
                    target = f[iname] if shared_deco else (insts[iname].m if K is not None else f)
                    nk = norm_key(kind, iname, key, args, kw)
                    plan_.append((nk, nk in m_.d, m_.d.get(nk), key))
                    t = target.asynq(*args, **kw)
                    t.on_computed.subscribe(lambda _t, ci=ci: order.append(ci))
                    tasks.append(t)
                target = None
                vals = yield tasks
                stats["gathers"] = stats.get("gathers", 0) + 1
                nmiss = sum(1 for p_ in plan_ if not p_[1])
                if len(set(p_[0] for p_ in plan_ if not p_[1])) < nmiss:
                    stats["gathers_with_overlapping_misses_of_one_key"] = stats.get("gathers_with_overlapping_misses_of_one_key", 0) + 1
                ran = len(env.execs) - nexec
                if ran != nmiss:
                    viol.append(("gathered-calls-executions", {"op": op, "executions": ran, "misses": nmiss}))
                    return
                if sorted(order) != list(range(len(calls))):
                    viol.append(("gathered-call-not-completed-once", {"op": op, "completions": order}))
                    return
                # the bodies' tokens, in execution order, belong to the missing calls in issue order
                toks = [t_ for (_n, _a, t_) in env.execs[nexec:]]
                fresh = {}
                mi = 0
                for ci, p_ in enumerate(plan_):
                    if not p_[1]:
                        nm_, nargs, tok = env.execs[nexec + mi]
                        if nargs != p_[3]:
                            viol.append(("body-received-other-arguments", {"op": op, "body_got": nargs}))
                            return
                        fresh[ci] = tokval(nm_, tok)
                        mi += 1
                for ci, p_ in enumerate(plan_):
                    want = p_[2] if p_[1] else fresh[ci]
                    if vals[ci] != want:
                        viol.append(("hit-returned-wrong-value" if p_[1] else "miss-returned-wrong-value", {"op": op, "call": ci, "expected": want, "observed": vals[ci]}))
                        return
                for ci in order:
                    p_ = plan_[ci]
                    if p_[1]:
                        m_.get(p_[0])
                    else:
                        if len(m_.d) >= m_.cap and p_[0] not in m_.d:
                            stats["evictions"] += 1
                        m_.put(p_[0], fresh[ci])
            elif op[0] == "pair":
                # two different keys of the unbounded per-instance cache awaited in one yield
                _, iname, k1, k2, sp1, sp2 = op
                k1, k2 = tuple(k1), tuple(k2)
                if iname not in insts:
                    insts[iname] = K()
                env.block = True
                env.fail_next = False
                d = pmodel.setdefault(iname, {})
                h1, h2 = k1 in d, k2 in d
                nexec = len(env.execs)
                a1, kw1 = spell(k1, sp1)
                a2, kw2 = spell(k2, sp2)
                v1, v2 = yield insts[iname].m.asynq(*a1, **kw1), insts[iname].m.asynq(*a2, **kw2)
                stats["parallel"] += 1
                ran = len(env.execs) - nexec
                if ran != (0 if h1 else 1) + (0 if h2 else 1):
                    viol.append(("parallel-calls-executions", {"op": op, "executions": ran, "hits": [h1, h2]}))
                    return
                for k, h, v in ((k1, h1, v1), (k2, h2, v2)):
                    if h:
                        if v != d[k]:
                            viol.append(("hit-returned-wrong-value", {"op": op, "expected": d[k], "observed": v}))
                    else:
                        toks = [t for (n, na, t) in env.execs[nexec:] if na == k]
                        if len(toks) != 1 or v != tokval("m", toks[0]):
                            viol.append(("miss-returned-wrong-value", {"op": op, "observed": v}))
                        d[k] = v
                if viol:
                    return
            elif op[0] == "pair_fail":
                # two different keys of one instance in one yield, the body of ONE of them raises (before or after
                # the other finishes): the failure is not cached, the other key's value is - also when it is the
                # first thing this instance ever caches
                _, iname, k1, k2, which = op
                k1, k2 = tuple(k1), tuple(k2)
                if iname not in insts:
                    insts[iname] = K()
                env.block = True
                env.fail_next = False
                d = pmodel.setdefault(iname, {})
                hits = [k1 in d, k2 in d]
                bads = {k1, k2} if which == 2 else {(k1, k2)[which]}
                env.fail_keys = set(bads)
                nexec = len(env.execs)
                (a1, kw1), (a2, kw2) = spell(k1, 0), spell(k2, 1)
                ts = [insts[iname].m.asynq(*a1, **kw1), insts[iname].m.asynq(*a2, **kw2)]
                try:
                    try:
                        yield ts
                    except Exception:
                        pass  # (what each call ended with is looked at below)
                finally:
                    env.fail_keys = set()
                stats["parallel"] += 1
                stats["pairs_with_one_failing_body"] = stats.get("pairs_with_one_failing_body", 0) + 1
                if which == 2:
                    stats["pairs_with_both_bodies_failing"] = stats.get("pairs_with_both_bodies_failing", 0) + 1
                for j, (k, t) in enumerate(zip((k1, k2), ts)):
                    if not t.is_computed():
                        # (the consumer was resumed with the other's failure first: finish this one)
                        try:
                            t.value()
                        except Exception:
                            pass
                    failed = t.error() is not None
                    if hits[j]:
                        if failed or t.value() != d[k]:
                            viol.append(("hit-returned-wrong-value", {"op": op, "expected": d[k], "observed": repr(t.error() or t.value())[:80]}))
                            return
                    elif k in bads:
                        if not failed:
                            viol.append(("raising-body-did-not-raise-to-caller", {"op": op}))
                            return
                        if not isinstance(t.error(), UserErr):
                            # (both bodies failing: each call still gets ITS body's exception)
                            viol.append(("raising-body's-exception-replaced", {"op": op, "observed": repr(t.error())[:120]}))
                            return
                    else:
                        toks = [tk for (n, na, tk) in env.execs[nexec:] if na == k]
                        if failed or len(toks) != 1 or t.value() != tokval("m", toks[0]):
                            viol.append(("miss-returned-wrong-value", {"op": op, "observed": repr(t.error() or t.value())[:80]}))
                            return
                        d[k] = t.value()
            elif op[0] == "pair_same":
                # the SAME key of the per-instance cache asked for twice in one yield (two spellings): on a miss both
                # bodies run, each call gets its own body's result, the later finisher's stays cached
                _, iname, k1, sp1, sp2 = op
                k1 = tuple(k1)
                if iname not in insts:
                    insts[iname] = K()
                env.block = True
                env.fail_next = False
                d = pmodel.setdefault(iname, {})
                hit = k1 in d
                nexec = len(env.execs)
                a1, kw1 = spell(k1, sp1)
                a2, kw2 = spell(k1, sp2)
                t1, t2 = insts[iname].m.asynq(*a1, **kw1), insts[iname].m.asynq(*a2, **kw2)
                done = []
                t1.on_computed.subscribe(lambda _t: done.append(0))
                t2.on_computed.subscribe(lambda _t: done.append(1))
                vs = yield t1, t2
                stats["parallel"] += 1
                stats["overlapping_misses_of_one_key_per_instance"] = stats.get("overlapping_misses_of_one_key_per_instance", 0) + (0 if hit else 1)
                ran = len(env.execs) - nexec
                if hit:
                    if ran != 0 or vs[0] != d[k1] or vs[1] != d[k1]:
                        viol.append(("hit-returned-wrong-value", {"op": op, "executions": ran, "expected": d[k1], "observed": repr(vs)[:120]}))
                        return
                else:
                    fresh = [tokval("m", t) for (n, na, t) in env.execs[nexec:]]
                    if ran != 2 or [vs[0], vs[1]] != fresh:
                        viol.append(("miss-returned-wrong-value", {"op": op, "executions": ran, "bodies_produced": repr(fresh)[:120], "observed": repr(vs)[:120]}))
                        return
                    d[k1] = fresh[done[-1]]
            elif op[0] == "drop":
                iname = op[1]
                if iname in insts:
                    import weakref

                    wr = weakref.ref(insts[iname])
                    del insts[iname]
                    pmodel.pop(iname, None)
                    generation[iname] = generation.get(iname, 0) + 1
                    stats["instances_dropped_and_created_anew"] = stats.get("instances_dropped_and_created_anew", 0) + 1
                    gc.collect()
                    if kind == "per_instance":
                        if wr() is not None:
                            # something still references the instance (e.g. a live exception's
                            # traceback): it has not vanished yet, nothing to check
                            dead_later.append(wr)
                            stats["gc_instance_still_referenced"] = stats.get("gc_instance_still_referenced", 0) + 1
                        else:
                            stats["gc_checks"] += 1
                            cache = K.__dict__["m"].__acached_per_instance_cache__
                            alive = len(insts) + sum(1 for w in dead_later if w() is not None)
                            if len(cache) > alive:
                                viol.append(("per-instance-cache-outlives-instance", {"entries": len(cache), "live_instances": alive}))
                                return

    rt.attach()
    try:
        driver()
    except BaseException as e:
        viol.append(("history-crashed", exc_desc(e)))
    finally:
        rt.detach()
    return viol, stats


def run_lazy(hist, env, stats):
    import asynq
    import asynq.tools as T
    from asynq import asynq as A
    from asynq.tools import alazy_constant

    viol = []
    ttl = hist["ttl"]
    old = T.utime
    T.utime = lambda: env.now

    @alazy_constant(ttl=ttl)
    @A()
    def const():
        return (yield from body("const", 0, 0, 0))

    m_refresh = 0
    m_val = None
    try:
        for op in hist["ops"]:
            if op[0] == "tick":
                env.now += op[1]
            elif op[0] == "dirty":
                const.dirty()
                m_refresh = 0
            elif op[0] == "race":
                # dirty() issued by a sibling task while the refresh is suspended on its batch item (or, when the
                # value is still fresh, right after the call returned it): the NEXT call must recompute
                env.block = True
                env.fail_next = False
                n = len(env.execs)
                must = (m_refresh == 0) or (ttl != 0 and m_refresh < env.now - ttl)
                seen = []

                @A()
                def dirtier():
                    seen.append(len(env.execs) - n)
                    const.dirty()

                @A()
                def racer():
                    return (yield const.asynq(), dirtier.asynq())

                out = racer()[0]
                ran = len(env.execs) - n
                stats["dirty_while_refresh_in_flight"] = stats.get("dirty_while_refresh_in_flight", 0) + (1 if must and seen == [1] else 0)
                if must:
                    stats["misses"] += 1
                    if ran != 1 or seen != [1] or out != tokval("const", env.execs[-1][2]):
                        viol.append(("lazy-constant-race", {"op": op, "executions": ran, "body_started_before_dirty": seen, "observed": repr(out)[:80]}))
                        break
                else:
                    stats["hits"] += 1
                    if ran != 0 or out != m_val:
                        viol.append(("lazy-constant-hit", {"op": op, "executions": ran, "expected": m_val, "observed": out, "now": env.now, "refreshed_at": m_refresh, "ttl": ttl}))
                        break
                m_refresh = 0  # the dirty() came after the value was read / while it was being computed
            elif op[0] == "race3":
                # two computations in flight with nothing valid cached: the first to finish succeeds (stored and
                # stamped), the other one - which needs one more request - RAISES afterwards: a failure is not
                # cached and does not disturb what a successful computation has stored
                must = (m_refresh == 0) or (ttl != 0 and m_refresh < env.now - ttl)
                if not must:
                    continue
                env.block = True
                env.fail_next = False
                n = len(env.execs)
                late = []

                @A()
                def later():
                    env.block = 2
                    try:
                        return ("val", (yield const.asynq()))
                    except UserErr as e_:
                        return ("exc", exc_desc(e_))
                    finally:
                        late.append(1)

                @A()
                def racer3():
                    t1 = const.asynq()
                    t1.on_computed.subscribe(lambda _t: setattr(env, "fail_next", True))
                    return (yield t1, later.asynq())

                out = racer3()
                env.fail_next = False
                env.block = False
                ran = len(env.execs) - n
                stats["failing_computation_finishing_after_a_successful_overlapping_one"] = stats.get("failing_computation_finishing_after_a_successful_overlapping_one", 0) + 1
                toks = [tokval("const", e[2]) for e in env.execs[n:]]
                if ran != 2 or out[0] != toks[0] or out[1][0] != "exc":
                    viol.append(("lazy-constant-race", {"op": op, "executions": ran, "observed": repr(out)[:160]}))
                    break
                m_val = toks[0]
                m_refresh = env.now
                again = const()
                if len(env.execs) - n != 2 or again != m_val:
                    viol.append(("lazy-constant-hit", {"op": op, "executions_after_the_race": len(env.execs) - n - 2, "expected": m_val, "observed": again, "what": "a failing overlapping computation disturbed the stored value"}))
                    break
                stats["hits"] += 1
            elif op[0] == "race2":
                # a refresh that started BEFORE a dirty() finishes AFTER the recomputation that the dirty() caused:
                # what stays cached is the value computed after the invalidation
                env.block = True
                env.fail_next = False
                n = len(env.execs)
                must = (m_refresh == 0) or (ttl != 0 and m_refresh < env.now - ttl)
                old_val = m_val

                @A()
                def second():
                    const.dirty()
                    env.block = False  # the recomputation does not wait for anything: it finishes first
                    return (yield const.asynq())

                @A()
                def racer2():
                    return (yield const.asynq(), second.asynq())

                out = racer2()
                ran = len(env.execs) - n
                stats["stale_refresh_finishing_after_a_newer_one"] = stats.get("stale_refresh_finishing_after_a_newer_one", 0) + (1 if must else 0)
                stats["misses"] += 1
                want_runs = 2 if must else 1
                toks = [tokval("const", e[2]) for e in env.execs[n:]]
                if ran != want_runs or out[1] != toks[-1] or out[0] != (toks[0] if must else old_val):
                    viol.append(("lazy-constant-race", {"op": op, "executions": ran, "expected_executions": want_runs, "observed": repr(out)[:120]}))
                    break
                m_val = toks[-1]
                m_refresh = env.now
            else:
                env.block = op[1]
                env.fail_next = op[2]
                n = len(env.execs)
                must = (m_refresh == 0) or (ttl != 0 and m_refresh < env.now - ttl)
                try:
                    v = const() if op[3] else const.asynq().value()
                    out = ("val", v)
                except UserErr as e:
                    out = ("exc", exc_desc(e))
                env.fail_next = False
                ran = len(env.execs) - n
                if must:
                    stats["misses"] += 1
                    stats["recomputes"] += 1
                    if ran != 1:
                        viol.append(("lazy-constant-recompute-count", {"op": op, "executions": ran, "now": env.now, "refreshed_at": m_refresh, "ttl": ttl}))
                        break
                    if op[2]:
                        stats["raises"] += 1
                        if out[0] != "exc":
                            viol.append(("raising-body-did-not-raise-to-caller", {"op": op}))
                            break
                    else:
                        tok = env.execs[-1][2]
                        if out != ("val", tokval("const", tok)):
                            viol.append(("miss-returned-wrong-value", {"op": op, "observed": out}))
                            break
                        m_val = out[1]
                        m_refresh = env.now
                else:
                    stats["hits"] += 1
                    if ran != 0 or out != ("val", m_val):
                        viol.append(("lazy-constant-hit", {"op": op, "executions": ran, "expected": m_val, "observed": out, "now": env.now, "refreshed_at": m_refresh, "ttl": ttl}))
                        break
    finally:
        T.utime = old
    return viol, stats


KEYS = [(1, 2, 3), (1, 5, 3), (2, 2, 3), (1, 2, 7), (3, 2, 3), (2, 5, 7), (4, 2, 3)]
# different arguments whose tuples HASH alike: hash(-1) == hash(-2)
COLLIDING_KEYS = [(-1, 2, 3), (-2, 2, 3), (1, -1, 3), (1, -2, 3), (-1, -2, 3), (-2, -1, 3)]


def make_history(rnd, kind):
    if kind == "lazy":
        ttl = rnd.choice([0, 0, 25, 75])
        ops = []
        for _ in range(rnd.randint(6, 25)):
            r = rnd.random()
            if r < 0.3:
                ops.append(["tick", rnd.choice([10, 20, 40, 100])])
            elif r < 0.42:
                ops.append(["dirty"])
            elif r < 0.52:
                ops.append(["race"])
            elif r < 0.58:
                ops.append(["race2"])
            elif r < 0.64:
                ops.append(["race3"])
            else:
                ops.append(["call", rnd.random() < 0.3, rnd.random() < 0.12, rnd.random() < 0.5])
        return {"ttl": ttl, "ops": ops}
    nkeys = rnd.randint(2, 5)
    keys = rnd.sample(KEYS, nkeys)
    if rnd.random() < 0.3:
        keys = rnd.sample(COLLIDING_KEYS, nkeys)
    ninst = rnd.randint(1, 3) if kind in ("lru_method", "per_instance") else (2 if kind.startswith("lru_shared_deco") else 1)
    ops = []
    for _ in range(rnd.randint(6, 30)):
        r = rnd.random()
        iname = "i%d" % rnd.randrange(ninst)
        if kind in ("per_instance", "lru_method") and r < 0.07:
            ops.append(["drop", iname])
        elif kind == "per_instance" and r < 0.17 and len(keys) >= 2:
            k1, k2 = rnd.sample(keys, 2)
            ops.append(["pair", iname, list(k1), list(k2), rnd.randrange(6), rnd.randrange(6)])
        elif kind == "per_instance" and r < 0.25:
            ops.append(["pair_same", iname, list(rnd.choice(keys)), rnd.randrange(6), rnd.randrange(6)])
        elif kind == "per_instance" and r < 0.35 and len(keys) >= 2:
            k1, k2 = rnd.sample(keys, 2)
            ops.append(["pair_fail", iname, list(k1), list(k2), rnd.randrange(3)])
        elif kind.startswith("lru") and r < 0.12:
            calls = [[list(rnd.choice(keys)), rnd.randrange(6)] for _ in range(rnd.randint(2, 4))]
            if rnd.random() < 0.5:
                calls.append([list(calls[0][0]), rnd.randrange(6)])  # the first key once more, last
            ops.append(["gather", iname, calls])
        else:
            ops.append(["call", iname, list(rnd.choice(keys)), rnd.randrange(6), rnd.random() < 0.3, rnd.random() < 0.12])
    return {"maxsize": rnd.randint(1, 4), "ops": ops, "posonly": kind in ("lru_fn", "lru_method", "per_instance") and rnd.random() < 0.3}


KINDS = ["lru_fn", "lru_keyfn", "lru_method", "per_instance", "lazy", "lru_shared_deco", "lru_shared_deco_keyfn"]


def plan(tier, seed, build, scale):
    n = int((2500 if tier == "quick" else 250000) * scale)
    per = max(1, n // (8 if tier == "quick" else 64))
    units = []
    a = 0
    while a < n:
        units.append({"cases": [a, min(n, a + per)]})
        a += per
    return units


def run_unit(unit, progress):
    res = tl.new_result()
    c = res["counters"]
    a, b = unit["cases"]
    for i in range(a, b):
        progress(i)
        cs = tl.case_seed(unit["seed"], ID, i)
        rnd = random.Random(cs)
        kind = KINDS[i % len(KINDS)]
        hist = make_history(rnd, kind)
        viol, stats = run_history(kind, hist, cs)
        res["evaluations"] += 1
        c["histories_" + kind] = c.get("histories_" + kind, 0) + 1
        for k, v in stats.items():
            c[k] = c.get(k, 0) + v
        if stats["hits"] and stats["misses"] >= 2:
            res["nontrivial"].append(hash((kind, repr(hist))) & 0xFFFFFFFFFFFF)
        if viol:
            for v in viol[:2]:
                res["violations"].append(
                    {
                        "oracle": v[0],
                        "mechanism": "%s/%s" % (v[0], kind),
                        "detail": {"cache": kind, "violation": v[1], "history": hist},
                        "case": {"cases": [i, i + 1]},
                    }
                )
        if len(res["samples"]) < 2 and stats["hits"] >= 2 and i % len(KINDS) in (0, 3):
            res["samples"].append({"cache": kind, "history": hist})
    return res


def reach(c, tier):
    out = []
    for k in ["histories_" + k for k in KINDS] + ["hits", "misses", "evictions", "raises", "spelling_pairs", "gc_checks", "parallel", "recomputes", "gathers", "gathers_with_overlapping_misses_of_one_key", "dirty_while_refresh_in_flight", "stale_refresh_finishing_after_a_newer_one", "overlapping_misses_of_one_key_per_instance", "pairs_with_one_failing_body"]:
        if not c.get(k):
            out.append("%s is zero" % k)
    return out
