"""C18 - diagnostics are faithful and total: glued tracebacks, stack, repr, filter."""
import itertools
import linecache
import os
import random

from .. import gen, lang, ref, tl
from ..lang import UserErr, exc_desc

ID = "C18"
LEVEL = "exploration"
RULE = (
    "(a) chains of d = 1..12 (thorough ..60) awaiting tasks with generated, individually named bodies (any subset of levels defined without retrievable source, as code typed into a REPL or built with exec); the deepest "
    "level raises directly, in a plain helper, or awaits a batch item whose flush raises in a backend function / a lazily computed future whose provider raises; any subset of levels first awaits a batch item and any subset "
    "catches and re-raises; run via fn() and fn.asynq().value() on both builds: the user frames of the escaping "
    "exception's traceback must be exactly lvl0..lvl(d-1) once each, in order, ending at the raising frame, and "
    "format_asynq_stack() called inside the deepest task must list lvl0..lvl(d-1) outermost first (also for a task started by one task, handed on un-awaited and awaited by another after its creator has finished, and for one function awaiting itself 1200, 12000 and - thorough - 40000 levels deep, beyond the recursion limit of 10000 the worker runs with); the same holds for EVERY observation when the failed task is observed three times, when a task swallowed the failure before the caller observes it, and when a task caught it in a synchronous re-entry and then let it propagate. "
    "(b) filter_traceback on seeded line lists assembled from foreign lines, complete boilerplate runs of the three "
    "patterns, partial runs of every length at every position incl. the very end, and shuffled boilerplate: equality "
    "with an independent reference rewriting, plus structure (non-marker output is an in-order subsequence of the "
    "input; every partial-run line survives; one marker per complete run). "
    "(c) format_error on exceptions never raised / raised / carried through asynq / chained / None / non-exceptions, "
    "with and without tb, highlighting and filtering on and off: returns a str (None for None), never raises. "
    "(d) str, repr, debug.str, debug.repr and dump() of every asynq object (futures of every class, tasks, batches, "
    "items, the scheduler, scoped values, override contexts, async generators) in every lifecycle state, probed inside "
    "task steps, inside flushes and after completion of random Tasklang programs, plus fixed objects holding awkward payloads (tuples of every length, format-like strings, bytes, containers, nan): never raise and never change "
    "is_computed() of anything. distinct = case hash per part; non-trivial = (a) d >= 2, (b) >= 1 run, (c)/(d) all."
)
RULE += (
    " Fixed objects also include values that reach the future holding them again, twice or more, through "
    "namedtuples, record classes, dict subclasses and nested containers (repr must stay bounded). 12% of the "
    "generated traceback frame lines sit below a path 18-110 directories deep and 15% of the code lines are "
    "239-5000 characters long; format_error must keep a 900-character message. 45% of the generated partial "
    "boilerplate runs are directly followed by a complete run. format_error on an error carried through asynq "
    "must show the plain caller's frame when a traceback is passed, and the tasks' frames always."
)
ASSUMPTIONS = ["pygments (used for highlighting) is trusted"]
UNIT_TIMEOUT = {"quick": 240, "thorough": 2400}

TASK_CONTINUE = [
    "asynq.async_task.AsyncTask._continue",
    "asynq.async_task.AsyncTask._continue_on_generator",
    "asynq.async_task.AsyncTask._continue_on_generator",
]
FUTURE_BASE = [
    "asynq.decorators.AsyncDecorator.__call__",
    "asynq.futures.FutureBase.value",
    "asynq.futures.FutureBase.value",
    "asynq.futures.FutureBase.raise_if_error",
    "reraise",
    "six.reraise",
    "reraise",
    "value",
]
CALL_PURE = [
    "asynq.decorators.AsyncDecorator.asynq",
    "asynq.decorators.AsyncProxyDecorator._call_pure",
    "asynq.decorators.AsyncProxyDecorator._call_pure",
    "asynq.decorators.AsyncProxyDecorator._call_pure",
    "asynq.decorators.async_call",
]
PATTERNS = [(TASK_CONTINUE, "___asynq_continue___"), (FUTURE_BASE, "___asynq_future_raise_if_error___"), (CALL_PURE, "___asynq_call_pure___")]


def ref_filter(lines):
    """Independent reference: collapse only complete, consecutive runs."""
    out = []
    i = 0
    n = len(lines)
    while i < n:
        hit = None
        for pat, name in PATTERNS:
            m = len(pat)
            if i + m <= n and all(pat[j] in lines[i + j] for j in range(m)):
                hit = (m, name)
                break
        if hit is None:
            out.append(lines[i])
            i += 1
        else:
            out.append("  " + hit[1] + "\n")
            i += hit[0]
    return out


def plan(tier, seed, build, scale):
    units = []
    dmax = 12 if tier == "quick" else 60
    depths = list(range(1, 13)) + ([16, 20, 30, 45, 60] if tier == "thorough" else [])
    per = 4
    for a in range(0, len(depths), per):
        units.append({"mode": "chain", "depths": depths[a : a + per], "variants": 24 if tier == "quick" else 60, "cases": [a, a + 1]})
    # chains far deeper than the interpreter's recursion limit (one function awaiting itself)
    units.append({"mode": "deepstack", "depths": [1200, 12000] if tier == "quick" else [1200, 12000, 40000], "cases": [0, 1], "case_timeout": 200})
    nf = int((3000 if tier == "quick" else 400000) * scale)
    nfu = 4 if tier == "quick" else 16
    for a in range(0, nf, max(1, nf // nfu)):
        units.append({"mode": "filter", "cases": [a, min(nf, a + max(1, nf // nfu))]})
    units.append({"mode": "format_error", "cases": [0, 1]})
    np_ = int((400 if tier == "quick" else 30000) * scale)
    npu = 6 if tier == "quick" else 16
    for a in range(0, np_, max(1, np_ // npu)):
        units.append({"mode": "objects", "cases": [a, min(np_, a + max(1, np_ // npu))]})
    units.append({"mode": "objects_fixed", "cases": [0, 1]})
    return units


# ---------------------------------------------------------------------------
# (a) chains

_chain_ctr = itertools.count()


def make_chain(d, cfg, rt, stack_out):
    from asynq import asynq as A
    from asynq import debug as adebug
    from .. import harness

    ns = {"A": A, "cfg": cfg, "harness": harness, "rt": rt, "UserErr": UserErr, "ctr": itertools.count(), "stack_out": stack_out, "adebug": adebug}
    from asynq import BatchBase, BatchItemBase
    from asynq.futures import Future

    ns["Future"] = Future

    class BoomBatch(BatchBase):
        def _try_switch_active_batch(self):
            pass

        def _flush(self):
            ns["flush_raiser"]()

    ns["boom_item"] = lambda: BatchItemBase(BoomBatch())
    pieces = [
        (None, "def raiser():\n    raise UserErr('boom')\n"),
        (None, "def flush_raiser():\n    raise UserErr('boom')\n"),
        (None, "def prov_raiser():\n    raise UserErr('boom')\n"),
        (None, "@A()\ndef wrap_swallow(t):\n    try:\n        yield t\n    except UserErr:\n        pass\n    return 'swallowed'\n"),
        (None, "@A()\ndef wrap_retry(t):\n    try:\n        t.value()\n    except UserErr:\n        pass\n    yield None\n    t.value()\n"),
    ]
    for i in range(d):
        pieces.append(
            (
                i,
                '''
@A()
def lvl%(i)d():
    if cfg["item"][%(i)d]:
        yield harness.HItem(rt, 0, "k%%d" %% next(ctr), ("x", next(ctr)))
    if %(i)d == %(last)d:
        stack_out.append(adebug.format_asynq_stack())
        if cfg.get("raise_at") == "flush":
            # the error is raised by the backend call of a batch flush this task waits for
            yield boom_item()
        if cfg.get("raise_at") == "provider":
            # ... or by the value provider of a lazily computed future
            yield Future(prov_raiser)
        if cfg["helper"]:
            raiser()
        raise UserErr("boom")
    if cfg["catch"][%(i)d]:
        try:
            v = yield lvl%(n)d.asynq()
        except UserErr:
            raise
    else:
        v = yield lvl%(n)d.asynq()
    return v
'''
                % {"i": i, "n": i + 1, "last": d - 1},
            )
        )
    nosource = cfg.get("nosource") or [False] * d
    for i, text in pieces:
        fname = "<c18-chain-%d>" % next(_chain_ctr)
        if i is None or not nosource[i]:
            # make the source retrievable (inspect / linecache), as for a function defined in a module
            linecache.cache[fname] = (len(text), None, text.splitlines(True), fname)
        # else: like code typed into a REPL or built with exec(): no source available
        exec(compile(text, fname, "exec"), ns)
    return ns


def run_deepstack_unit(unit, res, c, progress):
    """format_asynq_stack() and the glued traceback at depths beyond sys.getrecursionlimit()."""
    import asynq
    from asynq import asynq as A
    from asynq import debug as adebug

    progress(0)
    got = {}

    @A()
    def lvl_deep(n, fail):
        if n == 0:
            try:
                got["stack"] = adebug.format_asynq_stack()
            except BaseException as e:
                got["stack_exc"] = e
            # dump() of the root task (blocked on the whole chain) and of the scheduler, from down here
            for what, fn in (("task.dump()", lambda: got["root_task"].dump()), ("scheduler.dump()", lambda: asynq.scheduler.get_scheduler().dump())):
                try:
                    fn()
                    got.setdefault("dumps", 0)
                    got["dumps"] += 1
                except BaseException as e:
                    got["dump_exc"] = (what, e)
            if fail:
                raise UserErr("deep boom")
            return 0
        v = yield lvl_deep.asynq(n - 1, fail)
        return v

    # a task that is started by one task, handed on un-awaited and awaited by another after its creator finished
    from .. import harness

    hrt = harness.HarnessRT({"nodes": [], "kinds": 1})
    stacks = {}

    @A()
    def ho_worker(tag):
        yield harness.HItem(hrt, 0, "ho" + tag, ("ho", tag))
        stacks[tag] = adebug.format_asynq_stack()
        return tag

    @A()
    def ho_starter(tag):
        yield None
        return [ho_worker.asynq(tag)]  # started here, awaited by whoever gets the list

    @A()
    def ho_outer_starter(tag):
        handle = yield ho_starter.asynq(tag)
        return handle

    @A()
    def ho_consumer(tag, levels):
        handle = yield (ho_outer_starter if levels == 2 else ho_starter).asynq(tag)
        yield harness.HItem(hrt, 0, "hoc" + tag, ("hoc", tag))
        v = yield handle[0]
        return v

    for levels in (1, 2):
        tl.tick()
        asynq.scheduler.reset()
        hrt.attach()
        try:
            tag = "t%d" % levels
            ho_consumer(tag, levels)
        finally:
            hrt.detach()
        res["evaluations"] += 1
        c["stacks_of_handed_over_tasks"] = c.get("stacks_of_handed_over_tasks", 0) + 1
        want = ["ho_consumer"] + (["ho_outer_starter"] if levels == 2 else []) + ["ho_starter", "ho_worker"]
        st_ = stacks.get(tag)
        seen = [next((w for w in ("ho_consumer", "ho_outer_starter", "ho_starter", "ho_worker") if w in e), "?") for e in (st_ or [])]
        if seen != want:
            res["violations"].append({"oracle": "format_asynq_stack", "mechanism": "format_asynq_stack/creator-finished-before-the-task-ran", "detail": {"expected": want, "observed": seen}, "case": dict(unit)})

    for d in unit["depths"]:
        for fail in (False, True):
            tl.tick()
            asynq.scheduler.reset()
            got.clear()
            err = None
            try:
                got["root_task"] = lvl_deep.asynq(d, fail)
                got["root_task"].value()
            except UserErr as e:
                err = e
            except BaseException as e:
                res["violations"].append({"oracle": "deep-chain-raised", "mechanism": "deep-chain-raised", "detail": {"depth": d, "exc": exc_desc(e)}, "case": dict(unit, depths=[d])})
                continue
            res["evaluations"] += 1
            res["nontrivial"].append(hash(("deepstack", d, fail)) & 0xFFFFFFFFFFFF)
            c["deep_chains"] = c.get("deep_chains", 0) + 1
            c["max_stack_depth_formatted"] = max(c.get("max_stack_depth_formatted", 0), d)
            viol = []
            if "stack_exc" in got:
                viol.append(("format_asynq_stack-raised", {"exc": exc_desc(got["stack_exc"])}))
            elif got.get("stack") is None or len(got["stack"]) != d + 1:
                viol.append(("format_asynq_stack", {"entries": None if got.get("stack") is None else len(got["stack"]), "expected": d + 1}))
            elif not all("lvl_deep" in s_ for s_ in got["stack"]):
                viol.append(("format_asynq_stack", {"entries_not_naming_the_task": sum(1 for s_ in got["stack"] if "lvl_deep" not in s_)}))
            c["dumps_from_the_bottom_of_a_deep_chain"] = c.get("dumps_from_the_bottom_of_a_deep_chain", 0) + got.get("dumps", 0)
            if "dump_exc" in got:
                viol.append(("dump-raised", {"call": got["dump_exc"][0], "exc": exc_desc(got["dump_exc"][1])}))
            if fail:
                if err is None:
                    viol.append(("chain-error-did-not-escape", {}))
                else:
                    n = sum(1 for x in tb_names(err) if x == "lvl_deep")
                    if n != d + 1:
                        viol.append(("traceback-frames", {"frames_of_the_chain": n, "expected": d + 1}))
            for v in viol:
                res["violations"].append({"oracle": v[0], "mechanism": v[0] + "/beyond-recursion-limit", "detail": dict(v[1], depth=d, failing=fail), "case": dict(unit, depths=[d])})
    res["samples"].append({"deep stack depths": unit["depths"]})


def tb_names(e):
    out = []
    tb = e.__traceback__
    while tb is not None:
        out.append(tb.tb_frame.f_code.co_name)
        tb = tb.tb_next
    return out


def run_chain_unit(unit, res, c, progress):
    import asynq
    from .. import harness

    for d in unit["depths"]:
        progress(unit["cases"][0])
        rnd = random.Random(tl.case_seed(unit["seed"], ID, "chain%d" % d))
        variants = []
        variants.append(([False] * d, [False] * d, False, [False] * d))
        variants.append(([True] * d, [True] * d, True, [False] * d))
        variants.append(([i % 2 == 0 for i in range(d)], [i % 3 == 0 for i in range(d)], False, [i % 2 == 1 for i in range(d)]))
        variants.append(([False] * d, [False] * d, False, [True] * d))
        while len(variants) < unit["variants"]:
            variants.append(([rnd.random() < 0.5 for _ in range(d)], [rnd.random() < 0.4 for _ in range(d)], rnd.random() < 0.5, [rnd.random() < 0.3 for _ in range(d)]))
        for vi, (catch, item, helper, nosource) in enumerate(variants):
            raise_at = ["body", "flush", "provider"][vi % 3] if vi >= 4 else "body"
            for how in ("call", "value", "value_again", "swallowed_then_observed", "caught_in_sync_reentry_then_propagated"):
                asynq.scheduler.reset()
                prelude_viol = None
                if vi % 4 == 3:
                    # the same thread has just run a computation in which a context failed to re-activate after a
                    # flush and the caller handled it: diagnostics afterwards must not be affected
                    from . import c06
                    from asynq import debug as adebug

                    if vi % 8 == 3:
                        pprog = c06.lease_program(random.Random(tl.case_seed(unit["seed"], ID, "prelude%d-%d" % (d, vi))))
                    else:
                        # the failing task is woken by the outermost scheduler loop itself; its awaiter handles the error
                        pprog = {
                            "nodes": [
                                {"style": "asynq", "ret": "return", "body": [["try", [["yield", ["list", [["leaf", ["call", "p1", 1]], ["leaf", ["item", 0, "pk0"]]]]]], "exc", [], False], ["yield", ["leaf", ["item", 0, "pk3"]]]]},
                                {"style": "asynq", "ret": "return", "body": [["with", ["actx", "lease"], [["yield", ["leaf", ["item", 0, "pk1"]]], ["yield", ["leaf", ["item", 0, "pk2"]]]]]]},
                            ],
                            "root": 0,
                            "shared": [],
                            "kinds": 1,
                            "faults": {},
                            "flush_faults": {},
                            "ctx_faults": {"lease": ["resume", 2]},
                            "defaults": {"sv0": "dflt-sv0", "sv1": "dflt-sv1", "at0": "dflt-at0"},
                        }
                    prt = harness.HarnessRT(pprog, seed=0)
                    prt.run("call")
                    c["chains_after_a_failed_context_resume"] = c.get("chains_after_a_failed_context_resume", 0) + 1
                    try:
                        outside = adebug.format_asynq_stack()
                    except BaseException as e:
                        outside = ("raised", exc_desc(e))
                    if outside is not None:
                        prelude_viol = ("format_asynq_stack-outside-any-task-is-not-None", {"returned": repr(outside)[:200]})
                rt = harness.HarnessRT({"nodes": [], "kinds": 1})
                stack_out = []
                ns = make_chain(d, {"catch": catch, "item": item, "helper": helper, "nosource": nosource, "raise_at": raise_at}, rt, stack_out)
                if raise_at != "body":
                    c["chains_failing_in_a_" + raise_at] = c.get("chains_failing_in_a_" + raise_at, 0) + 1
                if any(nosource) and not all(nosource):
                    c["chains_with_some_levels_without_source"] = c.get("chains_with_some_levels_without_source", 0) + 1
                err = None
                prefix = []
                repeats = []
                try:
                    if how == "call":
                        ns["lvl0"]()
                    elif how == "value":
                        ns["lvl0"].asynq().value()
                    elif how == "value_again":
                        # the same failed task observed three times: every observation is a fresh, faithful traceback
                        t = ns["lvl0"].asynq()
                        for _ in range(2):
                            try:
                                t.value()
                            except UserErr as e:
                                repeats.append(tb_names(e))
                        t.value()
                    elif how == "swallowed_then_observed":
                        # a task awaited the chain and swallowed its failure; later the caller observes the chain's task
                        t = ns["lvl0"].asynq()
                        ns["wrap_swallow"](t)
                        try:
                            t.value()
                        except UserErr as e:
                            repeats.append(tb_names(e))
                        t.value()
                    else:
                        # a task calls the chain synchronously, catches, observes it again and lets it propagate
                        prefix = ["wrap_retry"]
                        ns["wrap_retry"](ns["lvl0"].asynq())
                except UserErr as e:
                    err = e
                if how not in ("call", "value"):
                    c["chains_observed_more_than_once"] = c.get("chains_observed_more_than_once", 0) + 1
                res["evaluations"] += 1
                c["chains"] = c.get("chains", 0) + 1
                c["max_chain_depth"] = max(c.get("max_chain_depth", 0), d)
                if any(catch):
                    c["chains_with_reraise"] = c.get("chains_with_reraise", 0) + 1
                if any(item):
                    c["chains_with_batch_awaits"] = c.get("chains_with_batch_awaits", 0) + 1
                if d >= 2:
                    res["nontrivial"].append(hash((d, tuple(catch), tuple(item), helper, how)) & 0xFFFFFFFFFFFF)
                viol = []
                if prelude_viol is not None:
                    viol.append(prelude_viol)
                want = ["lvl%d" % i for i in range(d)]
                for k, names in enumerate(repeats):
                    user = [n for n in names if n.startswith("lvl") or n.startswith("wrap_")]
                    if user != want:
                        viol.append(("traceback-frames", {"expected": want, "observed": user, "observation": k + 1}))
                if err is None:
                    viol.append(("chain-error-did-not-escape", {}))
                else:
                    names = tb_names(err)
                    user = [n for n in names if n.startswith("lvl") or n.startswith("wrap_")]
                    if user != prefix + want:
                        viol.append(("traceback-frames", {"expected": prefix + want, "observed": user, "observation": len(repeats) + 1}))
                    last = {"flush": "flush_raiser", "provider": "prov_raiser"}.get(raise_at) or ("raiser" if helper else "lvl%d" % (d - 1))
                    if not names or names[-1] != last:
                        viol.append(("traceback-does-not-end-at-raising-frame", {"expected_last": last, "observed_tail": names[-3:]}))
                if len(stack_out) != 1 or stack_out[0] is None:
                    viol.append(("format_asynq_stack-missing", {"calls": len(stack_out)}))
                else:
                    st = stack_out[0]
                    got = []
                    for entry in st:
                        for i in range(d - 1, -1, -1):
                            if ("in lvl%d\n" % i) in entry or ("lvl%d(" % i) in entry or entry.rstrip().endswith("in lvl%d" % i):
                                got.append("lvl%d" % i)
                                break
                        else:
                            got.append("?")
                    if got != want:
                        viol.append(("format_asynq_stack", {"expected": want, "observed": got, "entries": [s[:80] for s in st][:6]}))
                for v in viol:
                    if len(res["violations"]) < 8:
                        res["violations"].append(
                            {
                                "oracle": v[0],
                                "mechanism": v[0],
                                "detail": {"depth": d, "raised_in": raise_at, "catch_and_reraise": catch, "await_item": item, "raise_in_helper": helper, "levels_without_source": nosource, "how": how, "violation": v[1]},
                                "case": dict(unit, depths=[d]),
                            }
                        )
    res["samples"].append({"chain_depths": unit["depths"], "variants_each": unit["variants"]})


# ---------------------------------------------------------------------------
# (b) filter_traceback


def tb_line(name, rnd):
    path = rnd.choice(["asynq/async_task.py", "app/x.py", "asynq/futures.py", "lib/y.py"])
    if rnd.random() < 0.12:
        # an installation below a deep directory: lines far longer than anything the dump helpers truncate at
        path = "/srv/" + "/".join("release-%04d" % rnd.randint(0, 9999) for _ in range(rnd.choice([18, 25, 60, 110]))) + "/" + path
    return '  File "%s", line %d, in %s\n' % (path, rnd.randint(1, 400), name)


def code_line(rnd):
    if rnd.random() < 0.15:
        n = rnd.choice([239, 240, 241, 500, 5000])
        return "    query = '%s'\n" % ("x" * n)
    return "    some_code(%d)\n" % rnd.randint(0, 9)


FOREIGN = ["user_fn", "handler", "compute", "main", "<module>", "load", "render"]


def make_tb_text(rnd):
    lines = []
    meta = {"complete": 0, "partial": 0, "partial_lines": []}
    for _ in range(rnd.randint(0, 8)):
        r = rnd.random()
        if r < 0.35:
            for _ in range(rnd.randint(1, 3)):
                lines.append(tb_line(rnd.choice(FOREIGN), rnd))
                if rnd.random() < 0.5:
                    lines.append(code_line(rnd))
        elif r < 0.65:
            pat, _name = rnd.choice(PATTERNS)
            for p in pat:
                lines.append(tb_line(p, rnd))
            meta["complete"] += 1
        elif r < 0.9:
            pat, _name = rnd.choice(PATTERNS)
            k = rnd.randint(1, len(pat) - 1)
            start = 0 if rnd.random() < 0.7 else rnd.randint(0, len(pat) - k)
            for p in pat[start : start + k]:
                ln = tb_line(p, rnd)
                lines.append(ln)
                meta["partial_lines"].append(ln)
            meta["partial"] += 1
            if rnd.random() < 0.45:
                # ... directly followed by a COMPLETE run (of any kind): the line that ends the partial match is
                # the first line of a run that has to be collapsed
                pat2, _name2 = rnd.choice(PATTERNS)
                for p in pat2:
                    lines.append(tb_line(p, rnd))
                meta["complete"] += 1
                meta["partial_then_complete"] = meta.get("partial_then_complete", 0) + 1
            else:
                # a separator keeps the partial run from being completed by what follows
                lines.append(tb_line("SEPARATOR_%d" % rnd.randint(0, 99), rnd))
        else:
            pat, _name = rnd.choice(PATTERNS)
            sh = list(pat)
            rnd.shuffle(sh)
            for p in sh:
                lines.append(tb_line(p, rnd))
            lines.append(tb_line("SEPARATOR_%d" % rnd.randint(0, 99), rnd))
    # sometimes end exactly inside a run
    if rnd.random() < 0.35:
        pat, _name = rnd.choice(PATTERNS)
        k = rnd.randint(1, len(pat) - 1)
        for p in pat[:k]:
            ln = tb_line(p, rnd)
            lines.append(ln)
            meta["partial_lines"].append(ln)
        meta["partial"] += 1
        meta["ends_in_partial_run"] = k
    elif rnd.random() < 0.3:
        lines.append("UserErr: boom%s\n" % ("!" * rnd.choice([0, 0, 300, 2000])))
    meta["long_lines"] = sum(1 for l in lines if len(l) > 240)
    return lines, meta


def run_filter_unit(unit, res, c, progress):
    from asynq import debug as adebug

    a, b = unit["cases"]
    markers = set("  " + n + "\n" for _p, n in PATTERNS)
    for i in range(a, b):
        progress(i)
        rnd = random.Random(tl.case_seed(unit["seed"], ID, "f%d" % i))
        lines, meta = make_tb_text(rnd)
        try:
            got = adebug.filter_traceback(list(lines))
            out = ("val", got)
        except BaseException as e:
            out = ("exc", exc_desc(e))
        res["evaluations"] += 1
        c["filter_inputs"] = c.get("filter_inputs", 0) + 1
        c["filter_complete_runs"] = c.get("filter_complete_runs", 0) + meta["complete"]
        c["filter_partial_runs"] = c.get("filter_partial_runs", 0) + meta["partial"]
        c["filter_partial_runs_directly_followed_by_a_complete_run"] = c.get("filter_partial_runs_directly_followed_by_a_complete_run", 0) + meta.get("partial_then_complete", 0)
        c["filter_lines_longer_than_240_characters"] = c.get("filter_lines_longer_than_240_characters", 0) + meta["long_lines"]
        if meta.get("ends_in_partial_run"):
            c["filter_inputs_ending_inside_a_run"] = c.get("filter_inputs_ending_inside_a_run", 0) + 1
        if meta["complete"] or meta["partial"]:
            res["nontrivial"].append(hash(tuple(lines)) & 0xFFFFFFFFFFFF)
        viol = []
        want = ref_filter(lines)
        if out[0] != "val":
            viol.append(("filter_traceback-raised", {"exc": out[1]}))
        else:
            if got != want:
                viol.append(("filter_traceback-differs-from-reference", {"expected_len": len(want), "observed_len": len(got), "first_difference": next((k for k in range(min(len(got), len(want))) if got[k] != want[k]), min(len(got), len(want)))}))
            rest = [l for l in got if l not in markers]
            it = iter(lines)
            if not all(any(x == l for x in it) for l in rest):
                viol.append(("filter_traceback-output-not-a-subsequence-of-input", {}))
            for ln in meta["partial_lines"]:
                # (only where the input is unambiguous: neighbouring pieces may legitimately complete a run)
                if want.count(ln) >= lines.count(ln) and got.count(ln) < lines.count(ln):
                    viol.append(("filter_traceback-dropped-line-of-a-partial-run", {"line": ln.strip()}))
                    break
        for v in viol[:2]:
            if len(res["violations"]) < 8:
                mech = v[0]
                if meta.get("ends_in_partial_run"):
                    mech += "/input-ends-inside-a-run"
                res["violations"].append({"oracle": v[0], "mechanism": mech, "detail": {"violation": v[1], "lines": lines, "meta": {k: w for k, w in meta.items() if k != "partial_lines"}}, "case": {"mode": "filter", "cases": [i, i + 1]}})
        if len(res["samples"]) < 1 and meta["complete"] and meta["partial"] and len(lines) < 24:
            res["samples"].append({"lines": lines, "expected_output": want})


# ---------------------------------------------------------------------------
# (c) format_error


def _raised_long():
    try:
        raise KeyError("key " + "k" * 900)
    except KeyError as e:
        return e


def run_format_error_unit(unit, res, c, progress):
    import asynq
    from asynq import asynq as A
    from asynq import debug as adebug

    progress(0)

    @A()
    def inner():
        raise ValueError("inner")

    @A()
    def outer():
        yield inner.asynq()

    def carried():
        try:
            outer()
        except ValueError as e:
            return e

    def raised():
        try:
            raise KeyError("k")
        except KeyError as e:
            return e

    def chained():
        try:
            try:
                raise KeyError("k")
            except KeyError as k:
                raise RuntimeError("wrapper") from k
        except RuntimeError as e:
            return e

    def chained_asynq():
        try:
            try:
                outer()
            except ValueError as v:
                raise RuntimeError("wrapper") from v
        except RuntimeError as e:
            return e

    class Odd(Exception):
        def __str__(self):
            return "odd \xff ☃ %s" % ("x" * 500)

    cases = [
        ("never-raised", ValueError("x")),
        ("raised", raised()),
        ("carried-through-asynq", carried()),
        ("chained", chained()),
        ("chained-through-asynq", chained_asynq()),
        ("odd-str", Odd()),
        ("long-message", ValueError("rows: " + ", ".join("row%04d" % k for k in range(150)))),
        ("long-message-raised", (lambda: [e for e in [None] if False] or _raised_long())()),
        ("base-exception", KeyboardInterrupt()),
        ("none", None),
        ("not-an-exception", "just a string"),
        ("not-an-exception-obj", object()),
    ]
    for name, err in cases:
        tbs = [None]
        if isinstance(err, BaseException) and err.__traceback__ is not None:
            tbs.append(err.__traceback__)
        for tb in tbs:
            for hl in (True, False):
                for flt in (True, False):
                    adebug.enable_traceback_syntax_highlight(hl)
                    adebug.enable_filter_traceback(flt)
                    try:
                        r = adebug.format_error(err, tb=tb)
                        ok = (r is None) if err is None else isinstance(r, str)
                        out = ("val", type(r).__name__)
                        if ok and name.startswith("long-message") and err.args[0] not in r:
                            ok = False
                            out = ("val", "the text lacks part of the exception's message (%d characters)" % len(err.args[0]))
                        if ok and name == "carried-through-asynq" and not hl:
                            # the traceback that is PASSED is the one that is formatted: it starts in the plain function
                            # that called into asynq; without one, the glued traceback of the tasks is used
                            c["format_error_frame_checks"] = c.get("format_error_frame_checks", 0) + 1
                            missing = [fn_ for fn_ in ((["in carried"] if tb is not None else []) + ["in outer", "in inner"]) if fn_ not in r]
                            if missing:
                                ok = False
                                out = ("val", "frames missing from the formatted error: %r" % (missing,))
                    except BaseException as e:
                        ok = False
                        out = ("exc", exc_desc(e))
                    finally:
                        adebug.enable_traceback_syntax_highlight(True)
                        adebug.enable_filter_traceback(True)
                    res["evaluations"] += 1
                    c["format_error_calls"] = c.get("format_error_calls", 0) + 1
                    res["nontrivial"].append(hash((name, tb is None, hl, flt)) & 0xFFFFFFFFFFFF)
                    if not ok and len(res["violations"]) < 8:
                        res["violations"].append(
                            {
                                "oracle": "format_error",
                                "mechanism": "format_error/" + name,
                                "detail": {"error": name, "with_tb": tb is not None, "highlight": hl, "filter": flt, "observed": out},
                                "case": {"mode": "format_error", "cases": [0, 1]},
                            }
                        )
    res["samples"].append({"format_error_cases": [n for n, _ in cases]})


# ---------------------------------------------------------------------------
# (d) str / repr / dump of every object in every state


def diag(obj, kind, state, viol, c, stats):
    from asynq import debug as adebug

    key = "%s/%s" % (kind, state)
    stats[key] = stats.get(key, 0) + 1
    for name, fn in (("str", str), ("repr", repr), ("debug.str", adebug.str), ("debug.repr", adebug.repr)):
        try:
            r = fn(obj)
            if not isinstance(r, str):
                viol.append((name + "-returned-non-str", {"object": kind, "state": state}))
        except BaseException as e:
            viol.append((name + "-raised", {"object": kind, "state": state, "exc": exc_desc(e)}))
    d = getattr(obj, "dump", None)
    if d is not None:
        try:
            d()
            d(2)
        except BaseException as e:
            viol.append(("dump-raised", {"object": kind, "state": state, "exc": exc_desc(e)}))


def faithful(sv, value, viol):
    """str()/repr() of a scoped value show the held value (the format the library's own test pins)."""
    try:
        if str(sv) != "AsyncScopedValue(" + str(value) + ")":
            viol.append(("str-misreports-held-value", {"object": "AsyncScopedValue", "held": repr(value), "str": str(sv)[:80]}))
        if repr(sv) != "AsyncScopedValue(" + repr(value) + ")":
            viol.append(("repr-misreports-held-value", {"object": "AsyncScopedValue", "held": repr(value), "repr": repr(sv)[:80]}))
    except BaseException:
        pass  # raising is reported by diag()


def future_state(f):
    try:
        if not f.is_computed():
            return "uncomputed"
        return "error" if f.error() is not None else "value"
    except BaseException:
        return "unknown"


def task_state(t):
    s = future_state(t)
    if s != "uncomputed":
        return s
    try:
        if t.iteration_index == 0:
            return "not-started"
        if t._dependencies and any(not d.is_computed() for d in t._dependencies):
            return "blocked"
        return "running-or-waiting"
    except BaseException:
        return "uncomputed"


def batch_state(b):
    try:
        if b.is_cancelled():
            return "cancelled"
        if b.is_flushed():
            return "flushed"
        return "pending-empty" if b.is_empty() else "pending"
    except BaseException:
        return "unknown"


def sweep(rt, where, viol, c, stats, extra=()):
    import asynq

    snap = []
    objs = []
    for p, t in list(rt.tasks.items()):
        objs.append((t, "AsyncTask", task_state(t) + "@" + where))
    for inst, it in list(rt.items.items()):
        objs.append((it, "BatchItem", future_state(it) + "@" + where))
    for b in list(rt.batches):
        objs.append((b, "Batch", batch_state(b) + "@" + where))
    for l in list(rt.orphans):
        o = getattr(l, "obj", l)
        if o is not None and hasattr(o, "is_computed"):
            objs.append((o, type(o).__name__, future_state(o) + "@" + where))
    for (pth, k), leaves in list(rt.yield_leaves.items())[-6:]:
        for l in leaves:
            if l.obj is not None and hasattr(l.obj, "is_computed") and l.kind in ("const", "err", "lazy", "dbg"):
                objs.append((l.obj, {"const": "ConstFuture", "err": "ErrorFuture", "lazy": "Future", "dbg": "DebugBatchItem"}[l.kind], future_state(l.obj) + "@" + where))
                if l.kind == "dbg":
                    objs.append((l.obj.batch, "DebugBatch", batch_state(l.obj.batch) + "@" + where))
    sched = asynq.scheduler.get_scheduler()
    objs.append((sched, "TaskScheduler", ("active" if sched.active_task is not None else "idle") + "@" + where))
    for name, sv in rt.sv.items():
        objs.append((sv, "AsyncScopedValue", "live@" + where))
    for cid, ctx in list(rt.live_ctx.items()):
        objs.append((ctx, "AsyncContext", ("active" if ctx.active else "paused") + "@" + where))
    for o in extra:
        objs.append(o)
    before = [(o, o.is_computed()) for o, _k, _s in objs if hasattr(o, "is_computed")]
    for o, k, s in objs:
        diag(o, k, s, viol, c, stats)
    for o, was in before:
        try:
            now = o.is_computed()
        except BaseException:
            now = was
        if now != was:
            viol.append(("diagnostics-changed-a-future", {"object": type(o).__name__, "was_computed": was, "now": now, "where": where}))
            break


PROFILE = gen.profile(
    p_item_fault=0.1,
    p_flush_fault=0.1,
    p_wrap=0.5,
    max_nodes=9,
    w_stmt=dict(probe=3.0, raise_=0.3, with_=1.5, orphan=0.5, read=0.3),
    w_leaf=dict(err=0.5, lazy=0.6, junk=0.05, dbg=0.8),
    lazy_modes=["ok", "raise"],
    ctxs=["actx", "ov", "attr"],
)


def run_objects_unit(unit, res, c, progress):
    from .. import harness

    stats = {}
    a, b = unit["cases"]
    for i in range(a, b):
        progress(i)
        cs = tl.case_seed(unit["seed"], ID, "o%d" % i)
        prog = gen.generate(cs, PROFILE)
        rt = harness.HarnessRT(prog, seed=cs)
        viol = []
        rt.probe_hook = lambda rt_, fr, what: sweep(rt_, "in-step", viol, c, stats)
        rt.flush_probes.append(lambda rt_, batch, items: sweep(rt_, "in-flush", viol, c, stats))
        out = rt.run(["call", "value", "yielded"][i % 3])
        sweep(rt, "after", viol, c, stats)
        res["evaluations"] += 1
        res["nontrivial"].append(lang.struct_hash(prog))
        for v in viol[:2]:
            if len(res["violations"]) < 8:
                res["violations"].append({"oracle": v[0], "mechanism": "%s/%s" % (v[0], v[1].get("object")), "detail": {"violation": v[1], "program": prog}, "case": {"mode": "objects", "cases": [i, i + 1]}})
    for k, v in stats.items():
        c["printed_" + k] = v
    c["object_states_printed"] = len(stats)
    res["samples"].append({"object_kind/state@where printed": sorted(stats)[:40]})


def run_objects_fixed(unit, res, c, progress):
    """Objects the random programs do not create: async generators, override contexts, bare futures."""
    import asynq
    from asynq import AsyncScopedValue, ConstFuture, ErrorFuture, Future, async_override
    from asynq import asynq as A
    from asynq.generator import Value, async_generator
    from .. import harness

    progress(0)
    stats = {}
    viol = []
    asynq.scheduler.reset()
    rt = harness.HarnessRT({"nodes": [], "kinds": 1})

    @async_generator()
    def g():
        yield harness.HItem(rt, 0, "g", ("g", 0))
        yield Value(1)
        yield Value(2)

    gen_ = g()
    diag(gen_, "_AsyncGenerator", "fresh", viol, c, stats)
    t = next(gen_)
    diag(gen_, "_AsyncGenerator", "mid-uncomputed-task", viol, c, stats)
    t.value()
    for _ in range(5):
        try:
            next(gen_).value()
        except StopIteration:
            break
    diag(gen_, "_AsyncGenerator", "stopped", viol, c, stats)
    sv = AsyncScopedValue(1)
    ov = sv.override(2)
    diag(ov, "_AsyncScopedValueOverrideContext", "not-entered", viol, c, stats)
    with ov:
        diag(ov, "_AsyncScopedValueOverrideContext", "entered", viol, c, stats)
        diag(sv, "AsyncScopedValue", "overridden", viol, c, stats)

    class Holder(object):
        x = 1

    po = async_override(Holder, "x", 5)
    diag(po, "_AsyncPropertyOverrideContext", "not-entered", viol, c, stats)
    with po:
        diag(po, "_AsyncPropertyOverrideContext", "entered", viol, c, stats)
    for f, k in ((Future(lambda: 3), "Future"), (ConstFuture(1), "ConstFuture"), (ErrorFuture(ValueError("e")), "ErrorFuture")):
        diag(f, k, future_state(f), viol, c, stats)
    f = Future(lambda: 1 / 0)
    diag(f, "Future", "uncomputed-will-fail", viol, c, stats)
    try:
        f.value()
    except ZeroDivisionError:
        pass
    diag(f, "Future", "error", viol, c, stats)
    f.reset_unsafe()
    diag(f, "Future", "reset", viol, c, stats)

    class SelfRef(object):
        pass

    cf = Future(lambda: None)
    cf.set_value(cf)
    diag(cf, "Future", "value-is-self", viol, c, stats)

    # ---- values that reach the future holding them AGAIN, several times, through containers of every sort
    import collections

    Pair = collections.namedtuple("Pair", "a b")

    class Rec(object):
        def __init__(self, *xs):
            self.xs = list(xs)

        def __repr__(self):
            return "Rec(%s)" % ", ".join(repr(x) for x in self.xs)

        __str__ = __repr__

    class RecDict(dict):
        def __repr__(self):
            return "RecDict(%s)" % ", ".join("%r=%r" % kv for kv in self.items())

    shapes = {
        "namedtuple-twice": lambda f: Pair(f, f),
        "record-twice": lambda f: Rec(f, f),
        "record-thrice-nested": lambda f: Rec(f, Rec(f, Pair(f, 1))),
        "list-twice": lambda f: [f, f],
        "dict-twice": lambda f: {"a": f, "b": f},
        "dict-subclass-twice": lambda f: RecDict(a=f, b=f),
        "tuple-in-record": lambda f: Rec((f, f), [f]),
    }
    for nm, mk in sorted(shapes.items()):
        sf = Future(lambda: None)
        sf.set_value(mk(sf))
        diag(sf, "Future", "value-reaches-self/" + nm, viol, c, stats)
        try:
            if len(repr(sf)) > 5000:
                viol.append(("repr-of-self-reaching-value-is-not-bounded", {"object": "Future", "shape": nm, "length": len(repr(sf))}))
        except BaseException:
            pass  # reported by diag()
        box = []

        @A()
        def self_holder(box=box, mk=mk):
            v = yield harness.HItem(rt, 0, "sh", ("sh", 0))
            return mk(box[0])

        tk = self_holder.asynq()
        box.append(tk)
        diag(tk, "AsyncTask", "value-reaches-self-not-started/" + nm, viol, c, stats)
        tk.value()
        diag(tk, "AsyncTask", "value-reaches-self/" + nm, viol, c, stats)
        # two futures holding each other through the shape
        fa = Future(lambda: None)
        fb = Future(lambda: None)
        fa.set_value(mk(fb))
        fb.set_value(mk(fa))
        diag(fa, "Future", "value-reaches-self-through-another-future/" + nm, viol, c, stats)
    c["self_reaching_value_shapes_printed"] = len(shapes)

    @A()
    def t1():
        v = yield harness.HItem(rt, 0, "t", ("t", 0))
        return v

    # ---- objects HOLDING awkward payloads: tuples of every length, format-like strings, bytes, containers
    from asynq.batching import DebugBatchItem

    payloads = [(), (1,), (7, "en_US"), ((), ()), "%s", "%d %s %%", "{} {0}", b"\xff", [], [()], {}, {"k": (1, 2)}, None, 0, float("nan"), "\u2603", frozenset(), 10 ** 30]

    @A()
    def with_args(x, y=None):
        v = yield harness.HItem(rt, 0, "pa", ("pa", next(pctr)))
        return x

    pctr = itertools.count()
    for pi, pv in enumerate(payloads):
        sv2 = AsyncScopedValue(pv)
        for state in ("default", "set", "overridden", "after-override"):
            if state == "set":
                sv2.set(pv)
            if state == "overridden":
                with sv2.override(pv):
                    diag(sv2, "AsyncScopedValue", "payload/" + state, viol, c, stats)
                    faithful(sv2, pv, viol)
                continue
            diag(sv2, "AsyncScopedValue", "payload/" + state, viol, c, stats)
            faithful(sv2, pv, viol)
        ovc = sv2.override(pv)
        diag(ovc, "_AsyncScopedValueOverrideContext", "payload", viol, c, stats)
        diag(async_override(Holder, "x", pv), "_AsyncPropertyOverrideContext", "payload", viol, c, stats)
        diag(ConstFuture(pv), "ConstFuture", "payload", viol, c, stats)
        diag(Value(pv), "Value", "payload", viol, c, stats)
        fpl = Future(lambda pv=pv: pv)
        diag(fpl, "Future", "payload-uncomputed", viol, c, stats)
        fpl.value()
        diag(fpl, "Future", "payload-value", viol, c, stats)
        try:
            diag(ErrorFuture(ValueError(pv)), "ErrorFuture", "payload", viol, c, stats)
        except BaseException:
            pass
        tk = with_args.asynq(pv, y=pv)
        diag(tk, "AsyncTask", "payload-args-not-started", viol, c, stats)
        tk.value()
        diag(tk, "AsyncTask", "payload-args-value", viol, c, stats)
        try:
            di = DebugBatchItem("c18p", pv)
            diag(di, "DebugBatchItem", "payload-pending", viol, c, stats)
            diag(di.batch, "DebugBatch", "payload-pending", viol, c, stats)
            di.value()
            diag(di, "DebugBatchItem", "payload-value", viol, c, stats)
        except BaseException as e:
            viol.append(("debug-batch-item-with-payload-raised", {"object": "DebugBatchItem", "exc": exc_desc(e), "payload": repr(pv)}))
    c["payload_objects_printed"] = len(payloads)

    task = t1.asynq()
    diag(task, "AsyncTask", "not-started", viol, c, stats)
    diag(asynq.scheduler.get_scheduler(), "TaskScheduler", "idle", viol, c, stats)
    task.value()
    diag(task, "AsyncTask", "value", viol, c, stats)
    res["evaluations"] = sum(stats.values())
    for k in stats:
        c["printed_" + k] = stats[k]
        res["nontrivial"].append(hash(k) & 0xFFFFFFFFFFFF)
    c["fixed_object_states_printed"] = len(stats)
    for v in viol:
        if len(res["violations"]) < 8:
            res["violations"].append({"oracle": v[0], "mechanism": "%s/%s" % (v[0], v[1].get("object")), "detail": v[1], "case": {"mode": "objects_fixed", "cases": [0, 1]}})
    res["samples"].append({"fixed objects printed": sorted(stats)})


def run_unit(unit, progress):
    res = tl.new_result()
    c = res["counters"]
    devnull = os.open(os.devnull, os.O_WRONLY)
    os.dup2(devnull, 1)
    os.dup2(devnull, 2)
    m = unit["mode"]
    if m == "chain":
        run_chain_unit(unit, res, c, progress)
    elif m == "deepstack":
        run_deepstack_unit(unit, res, c, progress)
    elif m == "filter":
        run_filter_unit(unit, res, c, progress)
    elif m == "format_error":
        run_format_error_unit(unit, res, c, progress)
    elif m == "objects":
        run_objects_unit(unit, res, c, progress)
    else:
        run_objects_fixed(unit, res, c, progress)
    return res


def reach(c, tier):
    out = []
    for k in ("chains", "chains_with_reraise", "chains_with_batch_awaits", "chains_with_some_levels_without_source", "filter_inputs", "filter_complete_runs", "filter_partial_runs", "filter_inputs_ending_inside_a_run", "format_error_calls", "object_states_printed", "fixed_object_states_printed", "deep_chains"):
        if not c.get(k):
            out.append("%s is zero" % k)
    return out
