"""C01 - async execution returns exactly what sequential evaluation would."""
import random

from .. import gen, lang, ref, tl

ID = "C01"
LEVEL = "exploration"
RULE = (
    "seeded random Tasklang programs (trees/DAGs of tasks in 8 calling styles, nested tuple/list/dict "
    "yields, batch items of several kinds, DebugBatchItems, const/error/lazy futures, None, re-yielded "
    "futures, junk, sync re-entry, try/except/finally, contexts, early result()); each run under all four "
    "calling conventions and several get_priority() policies on both builds and compared with a sequential "
    "reference evaluation of the same program text, at the root and at every task's every yield. "
    "distinct = structural hash of the program; non-trivial = at least 2 task instances and at least 1 batch flush."
)
ASSUMPTIONS = [
    "task bodies are side-effect free apart from contexts, so 'the sequential result' is well defined",
    "CPython 3.12, Cython 3.3, qcore are trusted",
]
UNIT_TIMEOUT = {"quick": 600, "thorough": 3000}

PROFILE = gen.profile(p_item_fault=0.05)
HOWS = ["call", "value", "yielded", "yielded_value"]


def plan(tier, seed, build, scale):
    n = int((1600 if tier == "quick" else 30000) * scale)
    per = max(1, n // (8 if tier == "quick" else 16))
    units = []
    a = 0
    while a < n:
        units.append({"cases": [a, min(n, a + per)], "nsched": 4 if tier == "quick" else 10})
        a += per
    return units


def run_unit(unit, progress):
    from .. import harness

    res = {"evaluations": 0, "nontrivial": [], "counters": {}, "sets": {"flushseq": set(), "shapes": set()}, "violations": [], "faults": [], "samples": []}
    c = res["counters"]

    def inc(k, n=1):
        c[k] = c.get(k, 0) + n

    a, b = unit["cases"]
    for i in range(a, b):
        progress(i)
        cs = tl.case_seed(unit["seed"], ID, i)
        prog = gen.generate(cs, PROFILE)
        rnd = random.Random(cs ^ 0x5A5A)
        try:
            exp, rrt = ref.evaluate(prog)
        except lang.HarnessFault as e:
            inc("ref_budget_skips")
            continue
        feats = lang.prog_features(prog)
        pols = tl.policies(prog, rnd, unit.get("nsched", 4), exhaustive_perms=unit["tier"] == "thorough")
        seqs = set()
        flushed = False
        bad = False
        for pi, pol in enumerate(pols):
            hows = HOWS if pi == 0 else [HOWS[(i + pi) % 4]]
            for how in hows:
                rt = harness.HarnessRT(prog, prio=pol, seed=cs)
                out = rt.run(how)
                res["evaluations"] += 1
                fs = harness.flush_sequence(rt.log)
                seqs.add(fs)
                if fs:
                    flushed = True
                inc("resumes_compared", sum(len(f.received) for f in rt.frames.values()))
                problems = []
                if out[:2] != exp[:2]:
                    problems.append(("root outcome", tl.short(exp), tl.short(out[:2])))
                for d in tl.compare_frames(rt, rrt):
                    problems.append((repr(d[0]) + " " + d[1], tl.short(d[2]), tl.short(d[3])))
                if problems and not bad:
                    bad = True
                    res["violations"].append(
                        {
                            "oracle": "reference-equality",
                            "mechanism": "value-mismatch",
                            "detail": {"how": how, "prio": pol, "problems": problems[:4], "program": prog},
                            "case": {"cases": [i, i + 1]},
                        }
                    )
        if len(seqs) >= 2:
            inc("programs_with_2plus_flush_orders")
        for s in seqs:
            res["sets"]["flushseq"].add(tl.digest(s))
        if feats["st_sync"]:
            inc("programs_with_sync")
        if feats["leaf_shared"]:
            inc("programs_with_shared")
        if exp[0] == "exc":
            inc("programs_ending_in_exception")
        inc("programs")
        inc("max_task_instances", 0)
        c["max_task_instances"] = max(c["max_task_instances"], len(rrt.frames))
        if len(rrt.frames) >= 2 and flushed:
            res["nontrivial"].append(lang.struct_hash(prog))
        if len(res["samples"]) < 2 and len(rrt.frames) >= 3 and flushed:
            res["samples"].append({"program": prog, "expected": tl.short(exp, 400), "flush_orders_seen": len(seqs)})
    res["sets"] = {k: sorted(v) for k, v in res["sets"].items()}
    return res


def reach(c, tier):
    out = []
    for k in ("programs_with_2plus_flush_orders", "programs_with_sync", "programs_with_shared", "resumes_compared"):
        if not c.get(k):
            out.append("%s is zero" % k)
    return out
