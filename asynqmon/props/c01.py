"""C01 - async execution returns exactly what sequential evaluation would."""
import random

from .. import gen, lang, ref, tl

ID = "C01"
LEVEL = "exploration"
RULE = (
    "seeded random Tasklang programs (trees/DAGs of tasks in 8 calling styles, nested tuple/list/dict "
    "yields incl. empty ones, batch items of several kinds, DebugBatchItems, const/error/lazy futures, None, "
    "re-yielded futures, junk, sync re-entry, try/except/finally, contexts and scoped-value reads, early "
    "result()); each run under all four calling conventions and several get_priority() policies on both "
    "builds and compared with a sequential reference evaluation of the same program text, at the root and "
    "at every task's every yield. Two profiles alternate: A = shared tasks (DAGs, also waited for synchronously by tasks that did not create them) "
    "with scoped overrides and reads everywhere except under a shared task; B = denser scoped-value overrides with "
    "reads, no shared tasks. distinct = structural hash of the program; non-trivial = at "
    "least 2 task instances and at least 1 batch flush."
)
RULE += (
    " Structured families mixed in: diamonds; 'revisit' programs (a task awaited by two parents - itself or "
    "through a child that waits for the item - is found waiting, a sibling flushes that batch by hand with "
    "item.value(), the second parent reaches it in the same traversal); 'recatch' programs (ONE cached error "
    "object raised by several children and caught again and again by one running body). Every fourth run under "
    "KEEP_DEPENDENCIES; at every step and flush all pending batches are queried and must stay unchanged; "
    "get_active_task() inside code the scheduler runs between task steps must be None or a task whose step is "
    "on the stack. 'overlap' programs (scoped overrides of different variables entered A, G and left A, G - "
    "the one that is left is not the most recently entered - with suspensions and reads in between)."
)
ASSUMPTIONS = [
    "task bodies are side-effect free apart from contexts, so 'the sequential result' is well defined",
    "CPython 3.12, Cython 3.3, qcore are trusted",
]
UNIT_TIMEOUT = {"quick": 150, "thorough": 2400}

COMMON = dict(
    p_equal_values=0.2,
    struct_depth_choices=[1, 2, 2, 3, 4, 5],
    p_item_fault=0.03,
    p_wrap=0.7,
    w_stmt=dict(raise_=0.15, syncitem=0.5),
    w_leaf=dict(err=0.15, junk=0.05, lazy=0.4),
    lazy_modes=["ok", "ok", "sync", "sync", "raise"],
    p_ctx_sync=0.15,
    p_try_raise=0.35,
)
PROFILE_A = gen.profile(
    p_shared=0.6,
    p_syncshared=0.3,
    ctxs=["ov", "ov", "attr", "actx"],
    **dict(COMMON, w_stmt=dict(raise_=0.15, syncitem=0.5, read=1.5, with_=1.8))
)
PROFILE_B = gen.profile(
    p_shared=0.0,
    ctxs=["ov", "ov", "attr", "actx"],
    **dict(COMMON, w_stmt=dict(raise_=0.15, read=2.5, with_=2.2, syncitem=0.5))
)
HOWS = ["call", "value", "yielded", "yielded_value"]
MONITORS = ("refeq", "restore", "peek", "stale")


def _shrunk(prog, how, pol, cs, oracle):
    small, runs = tl.shrink_for(prog, how, pol, cs, MONITORS, oracle)
    return {"shrunk_program": small, "shrink_runs": runs}


def plan(tier, seed, build, scale):
    n = int((2400 if tier == "quick" else 40000) * scale)
    per = max(1, n // (8 if tier == "quick" else 32))
    units = []
    a = 0
    while a < n:
        units.append({"cases": [a, min(n, a + per)], "nsched": 4 if tier == "quick" else 8})
        a += per
    return units


def run_unit(unit, progress):
    res = tl.new_result()
    res["sets"] = {"flushseq": set()}
    c = res["counters"]

    def inc(k, n=1):
        c[k] = c.get(k, 0) + n

    a, b = unit["cases"]
    for i in range(a, b):
        progress(i)
        cs = tl.case_seed(unit["seed"], ID, i)
        prof = PROFILE_A if i % 2 == 0 else PROFILE_B
        if i % 8 == 6:
            # a structured family the random generator rarely hits (see C07): a pending task awaited - also
            # synchronously - by several parents that override the same scoped value, each with a reading child
            from . import c07

            prog = c07.diamond_program(random.Random(cs))
            inc("diamond_programs")
        elif i % 8 == 2:
            # another one: a task reached twice in one traversal is unblocked in between by a sibling's item.value()
            prog = gen.revisit_program(random.Random(cs))
            inc("revisit_programs")
        elif i % 16 == 12:
            prog = gen.overlap_program(random.Random(cs))
            inc("overlap_programs")
        elif i % 16 == 9:
            prog = gen.sameval_program(random.Random(cs))
            inc("programs_overriding_with_the_value_already_in_force")
        elif i % 16 == 4:
            # one cached error object raised by several children and caught again and again by one running body
            prog = gen.recatch_program(random.Random(cs), leafs=("none", "const", "item", "item"))
            inc("recatch_programs")
        else:
            prog = gen.generate(cs, prof)
        if prog.get("shared"):
            # a read under a task awaited by several parents has no unique sequential answer: keep reads only
            # in the parents and their private children
            gen.strip_reads_under_shared(prog)
        rnd = random.Random(cs ^ 0x5A5A)
        try:
            exp_rrt = ref.evaluate(prog)
        except lang.HarnessFault:
            inc("ref_budget_skips")
            continue
        exp, rrt = exp_rrt
        feats = lang.prog_features(prog)
        pols = tl.policies(prog, rnd, unit.get("nsched", 4), exhaustive_perms=unit["tier"] == "thorough")
        seqs = set()
        flushed = False
        bad = False
        for pi, pol in enumerate(pols):
            hows = HOWS if pi == 0 else [HOWS[(i + pi) % 4]]
            for how in hows:
                rt, out, _e, _r = tl.execute(prog, how, pol, cs, MONITORS, rrt_exp=exp_rrt, keep_deps=(i + pi) % 4 == 3)
                res["evaluations"] += 1
                tl.harvest(rt, c)
                fs = tuple(ev[2] for ev in rt.log if ev[0] == "flush_body")
                seqs.add(fs)
                if fs:
                    flushed = True
                inc("yield_results_compared", sum(len(f.received) for f in rt.frames.values()))
                if rt.violations and not bad:
                    bad = True
                    for v in rt.violations[:3]:
                        res["violations"].append(
                            {
                                "oracle": v["oracle"],
                                "mechanism": v["oracle"],
                                "detail": dict({"how": how, "prio": pol, "violation": v["detail"], "program": prog}, **_shrunk(prog, how, pol, cs, v["oracle"])),
                                "case": {"cases": [i, i + 1]},
                            }
                        )
        if len(seqs) >= 2:
            inc("programs_with_2plus_flush_orders")
        for s in seqs:
            res["sets"]["flushseq"].add(tl.digest(s))
        for k, name in (("st_sync", "programs_with_sync"), ("leaf_shared", "programs_with_shared"), ("st_read", "programs_with_scoped_reads"), ("leaf_dbg", "programs_with_debug_batch_items")):
            if feats[k]:
                inc(name)
        inc("reads_compared", sum(1 for f in rt.frames.values() for r in f.received if r[0] == "read"))
        if exp[0] == "exc":
            inc("programs_ending_in_exception")
        else:
            inc("programs_ending_in_value")
        inc("programs")
        c["max_task_instances"] = max(c.get("max_task_instances", 0), len(rrt.frames))
        if len(rrt.frames) >= 2 and flushed:
            res["nontrivial"].append(lang.struct_hash(prog))
        if len(res["samples"]) < 2 and 3 <= len(rrt.frames) <= 8 and flushed:
            res["samples"].append({"program": prog, "expected": tl.short(exp, 400), "flush_orders_seen": len(seqs)})
    res["sets"] = {k: sorted(v) for k, v in res["sets"].items()}
    return res


def reach(c, tier):
    out = []
    for k in ("programs_with_2plus_flush_orders", "programs_with_sync", "programs_with_shared", "programs_with_scoped_reads", "yield_results_compared", "reads_compared", "programs_ending_in_value"):
        if not c.get(k):
            out.append("%s is zero" % k)
    return out
