"""C04 - batches are flushed only when nothing else can run (maximal batching)."""
import itertools
import random

from .. import gen, lang, ref, tl

ID = "C04"
LEVEL = "exploration"
RULE = (
    "(a) seeded yield-only Tasklang programs (no sync re-entry), deliberately unbalanced so that requests become "
    "issuable at different times, 1-4 batch kinds, errors, try/except (handlers that yield new sub-tasks), contexts, "
    "shared tasks, re-yielded futures, and - with several kinds - flush bodies that raise after serving 0-2 items (the tasks that receive the flush error become runnable and may request other kinds); all get_priority() policies. In-run probe inside on_before_batch_flush: every "
    "task reachable from the awaited root has started, none is runnable (all futures of its pending yield computed), "
    "and each blocks only on tasks or unflushed items; at every task step and before every flush all pending batches are looked at (is_cancelled, is_flushed, is_empty, str) and must stay exactly as they were. Single-kind programs additionally: the sequence of flushed item "
    "sets equals the rounds of an independent round-based simulator (flush count = critical path). "
    "(b) balanced trees (up to 4096 leaves: exactly 1 flush with every leaf request) and chains of n sequentially "
    "dependent requests (exactly n flushes of 1 item). distinct = program hash; non-trivial = at least 2 tasks and 1 flush."
)
RULE += (
    " One program in eight is a 'revisit' program: a task awaited by two parents waits (itself or through a "
    "child / grandchild) for an item that a sibling then flushes by hand in the same traversal - it must go on "
    "and join the pending batches before anything is flushed. In a third of the multi-kind programs some "
    "yields ask two batch kinds for the SAME key (the harness' request objects compare and hash by key, so "
    "those items are equal but not identical). Unit fanout: requests issued through async_call and "
    "AsyncEventHook over 8 kinds of asynq callable travel in exactly one flush."
)
ASSUMPTIONS = ["the statement restricts itself to programs whose tasks interact only by yielding"]
UNIT_TIMEOUT = {"quick": 150, "thorough": 2400}

BASE = dict(
    p_shared=0.4,
    p_item_fault=0.06,
    p_wrap=0.8,
    max_nodes=16,
    max_depth=6,
    w_stmt=dict(sync=0, orphan=0, raise_=0.2, try_=1.6, ret=0.2),
    w_leaf=dict(call=7, item=4, err=0.4, junk=0.05, lazy=0.4, again=0.6, dbg=0.0, const=1.0),
    lazy_modes=["ok", "sync", "sync", "raise"],
    p_ctx_sync=0.15,
    p_try_raise=0.3,
    ctxs=["actx", "ov", "attr"],
)
PROFILES = [
    gen.profile(kinds=1, **BASE),
    gen.profile(kinds=2, p_flush_fault=0.35, **BASE),
    gen.profile(kinds=3, p_flush_fault=0.2, **dict(BASE, w_leaf=dict(BASE["w_leaf"], dbg=0.6))),
    gen.profile(kinds=4, p_flush_fault=0.2, **BASE),
]
MONITORS = ("quiescence", "refeq", "resume", "peek")
HOWS = ["call", "value", "yielded", "yielded_value"]
SHAPES_QUICK = [("tree", 2, 6), ("tree", 4, 4), ("tree", 3, 5), ("tree", 2, 11), ("chain", 1, 40), ("chain", 1, 400), ("treechain", 3, 4)]
SHAPES_THOROUGH = SHAPES_QUICK + [("tree", 2, 12), ("tree", 8, 4), ("tree", 5, 5), ("chain", 1, 1500), ("treechain", 4, 5), ("treechain", 2, 9)]


def _shrunk(prog, how, pol, cs, oracle):
    small, runs = tl.shrink_for(prog, how, pol, cs, MONITORS, oracle)
    return {"shrunk_program": small, "shrink_runs": runs}


def plan(tier, seed, build, scale):
    n = int((2000 if tier == "quick" else 28000) * scale)
    per = max(1, n // (10 if tier == "quick" else 40))
    units = []
    a = 0
    while a < n:
        units.append({"cases": [a, min(n, a + per)], "nsched": 3 if tier == "quick" else 6, "mode": "tl"})
        a += per
    for j, s in enumerate(SHAPES_QUICK if tier == "quick" else SHAPES_THOROUGH):
        units.append({"cases": [j, j + 1], "mode": "shape", "shape": list(s)})
    units.append({"cases": [0, 1], "mode": "fanout"})
    return units


def run_fanout(unit, progress):
    """Requests issued THROUGH the library's own helpers travel together too: one yield of async_call.asynq(fn, i)
    for every kind of asynq callable (function, bound method, class- and staticmethod, pure function, a
    make_async_decorator wrapper, deduplicated / cached functions), and AsyncEventHook.trigger over such handlers:
    one flush carrying every request."""
    import asynq
    from asynq import asynq as A, async_call, make_async_decorator
    from asynq.tools import AsyncEventHook, alru_cache, deduplicate
    from .. import harness

    res = tl.new_result()
    c = res["counters"]
    n = 0
    for kind, width, via in itertools.product(("function", "bound method", "classmethod", "staticmethod", "pure function", "make_async_decorator wrapper", "deduplicate", "alru_cache", "mixed"), (2, 3, 7), ("async_call", "AsyncEventHook.trigger", "AsyncEventHook.safe_trigger")):
        progress(n)
        n += 1
        asynq.scheduler.reset()
        rt = harness.HarnessRT({"nodes": [], "kinds": 1})
        ctr = itertools.count()

        def fetch(i):
            return harness.HItem(rt, 0, "fo%d" % i, ("fo", i, next(ctr)))

        @A()
        def fn(i):
            return (yield fetch(i))

        @A(pure=True)
        def pure_fn(i):
            return (yield fetch(i))

        class K(object):
            @A()
            def m(self, i):
                return (yield fetch(i))

            @A()
            @classmethod
            def cm(cls, i):
                return (yield fetch(i))

            @A()
            @staticmethod
            def sm(i):
                return (yield fetch(i))

        @A()
        def wrapped_inner(i):
            return (yield fetch(i))

        def wrapper_fn(*args, **kwargs):
            return wrapped_inner.asynq(*args, **kwargs)

        wrapped = make_async_decorator(wrapped_inner, wrapper_fn, "passing-through")

        @deduplicate()
        @A()
        def dd(i):
            return (yield fetch(i))

        @alru_cache()
        @A()
        def lru(i):
            return (yield fetch(i))

        pool = {"function": fn, "bound method": K().m, "classmethod": K.cm, "staticmethod": K.sm, "pure function": pure_fn, "make_async_decorator wrapper": wrapped, "deduplicate": dd, "alru_cache": lru}
        if kind == "mixed":
            fns = [f for f in pool.values() if f is not None]
            fns = [fns[j % len(fns)] for j in range(width)]
        else:
            if pool[kind] is None:
                continue
            fns = [pool[kind]] * width

        if via == "async_call":
            @A()
            def root():
                return (yield [async_call.asynq(f, j) for j, f in enumerate(fns)])
        else:
            hook = AsyncEventHook()
            for j, f in enumerate(fns):
                if kind != "mixed" and j > 0:
                    break
                hook.subscribe(f)
            if kind != "mixed":
                # one handler kind, several hooks triggered in one yield
                @A()
                def root():
                    return (yield [getattr(hook, via.split(".")[1]).asynq(j) for j in range(width)])
            else:
                @A()
                def root():
                    yield getattr(hook, via.split(".")[1]).asynq(0)
                    return None

        try:
            out = ("val", root())
        except BaseException as e:
            out = ("exc", lang.exc_desc(e))
        flushes = [ev for ev in rt.log if ev[0] == "flush_body"]
        res["evaluations"] += 1
        c["fan_outs_through_library_helpers"] = c.get("fan_outs_through_library_helpers", 0) + 1
        res["nontrivial"].append(hash(("fanout", kind, width, via)) & 0xFFFFFFFFFFFF)
        if (out[0] != "val" or len(flushes) != 1) and len(res["violations"]) < 6:
            res["violations"].append(
                {
                    "oracle": "flushes-differ-from-maximal-batching-rounds",
                    "mechanism": "flushes-differ-from-maximal-batching-rounds/fan-out-through-" + via.split(".")[0],
                    "detail": {"callables": kind, "requests": width, "through": via, "flushes": [list(ev[2]) for ev in flushes][:6], "expected_flushes": 1, "outcome": repr(out)[:160]},
                    "case": {"mode": "fanout", "cases": [0, 1]},
                }
            )
    return res


def run_unit(unit, progress):
    if unit["mode"] == "shape":
        return run_shape(unit, progress)
    if unit["mode"] == "fanout":
        return run_fanout(unit, progress)
    res = tl.new_result()
    res["sets"] = {"flushseq": set()}
    c = res["counters"]

    def inc(k, n=1):
        c[k] = c.get(k, 0) + n

    a, b = unit["cases"]
    for i in range(a, b):
        progress(i)
        cs = tl.case_seed(unit["seed"], ID, i)
        prof = PROFILES[i % 4]
        prog = gen.generate(cs, prof)
        if i % 8 == 5:
            # a task reached twice in one traversal, found waiting the first time, unblocked in between by a
            # sibling's item.value(): it must go on (and join the pending batches) before anything is flushed
            prog = gen.revisit_program(random.Random(cs ^ 0x7E715))
            prof = dict(prof, kinds=2)
            inc("revisit_programs")
        rnd = random.Random(cs ^ 0xC04)
        if i % 3 == 1 and prof["kinds"] > 1:
            inc("yields_asking_two_batch_kinds_for_the_same_key", gen.equalise_items(prog, random.Random(cs ^ 0xE9), 0.6))
        try:
            exp_rrt = ref.evaluate(prog)
            single = prof["kinds"] == 1
            rounds = None
            if single:
                rout, rounds, _ = ref.evaluate_rounds(prog)
                if rout != exp_rrt[0]:
                    res["faults"].append("case %d: round simulator and sequential reference disagree" % i)
                    continue
        except lang.HarnessFault as e:
            inc("ref_budget_skips")
            continue
        exp, rrt = exp_rrt
        pols = tl.policies(prog, rnd, unit.get("nsched", 3), exhaustive_perms=unit["tier"] == "thorough")
        flushed = False
        bad = False
        seqs = set()
        for pi, pol in enumerate(pols):
            how = HOWS[(i + pi) % 4]
            rt, out, _e, _r = tl.execute(prog, how, pol, cs, MONITORS, rrt_exp=exp_rrt, keep_deps=(i + pi) % 4 == 3)
            res["evaluations"] += 1
            tl.harvest(rt, c)
            fl = [frozenset(ev[2]) for ev in rt.log if ev[0] == "flush_body"]
            seqs.add(tuple(ev[1] for ev in rt.log if ev[0] == "flush_body"))
            if fl:
                flushed = True
            if prog.get("flush_faults") and any(ev[0] == "flush_raise" for ev in rt.log):
                inc("runs_with_a_failing_flush")
            if single:
                inc("critical_path_checks")
                if fl != rounds:
                    rt.violation(
                        "flushes-differ-from-maximal-batching-rounds",
                        {
                            "flush_count": len(fl),
                            "critical_path": len(rounds),
                            "flush_sizes": [len(x) for x in fl][:20],
                            "round_sizes": [len(x) for x in rounds][:20],
                        },
                    )
                if len(rounds) >= 2 and len(set(len(x) for x in rounds)) >= 1:
                    inc("single_kind_programs_with_2plus_rounds")
            if rt.violations and not bad:
                bad = True
                for v in rt.violations[:3]:
                    res["violations"].append(
                        {
                            "oracle": v["oracle"],
                            "mechanism": v["oracle"],
                            "detail": dict({"how": how, "prio": pol, "violation": v["detail"], "program": prog}, **_shrunk(prog, how, pol, cs, v["oracle"])),
                            "case": {"cases": [i, i + 1]},
                        }
                    )
        inc("programs")
        if len(seqs) >= 2:
            inc("programs_with_2plus_flush_orders")
        # unbalanced: items issued in different rounds
        if rounds is not None and len(rounds) >= 2:
            inc("programs_whose_requests_become_issuable_at_different_rounds")
        if len(rrt.frames) >= 2 and flushed:
            res["nontrivial"].append(lang.struct_hash(prog))
        if len(res["samples"]) < 1 and 3 <= len(rrt.frames) <= 7 and flushed and rounds:
            res["samples"].append({"program": prog, "rounds": [sorted(map(repr, r)) for r in rounds]})
    res["sets"] = {k: sorted(tl.digest(x) for x in v) for k, v in res["sets"].items()}
    return res


def run_shape(unit, progress):
    import asynq
    from asynq import asynq as A
    from .. import harness

    res = tl.new_result()
    c = res["counters"]
    shape, f, d = unit["shape"]
    progress(unit["cases"][0])
    asynq.scheduler.reset()
    rt = harness.HarnessRT({"nodes": [], "kinds": 1})
    ctr = [0]

    def item():
        ctr[0] += 1
        return harness.HItem(rt, 0, "s%d" % ctr[0], ("shape", ctr[0]))

    @A()
    def tree(depth):
        if depth == 0:
            v = yield item()
            return 1
        got = yield [tree.asynq(depth - 1) for _ in range(f)]
        return sum(got)

    @A()
    def chain(n):
        if n == 0:
            return 0
        v = yield item()
        r = yield chain.asynq(n - 1)
        return r + 1

    @A()
    def treechain(depth):
        # every level first needs a request, then fans out: depth+1 rounds
        v = yield item()
        if depth == 0:
            return 1
        got = yield [treechain.asynq(depth - 1) for _ in range(f)]
        return 1 + sum(got)

    rt.attach()
    try:
        if shape == "tree":
            v = tree(d)
            want_flushes = [f ** d]
            ok = v == f ** d
        elif shape == "chain":
            v = chain(d)
            want_flushes = [1] * d
            ok = v == d
        else:
            v = treechain(d)
            want_flushes = [f ** k for k in range(d + 1)]
            ok = v == sum(f ** k for k in range(d + 1))
    finally:
        rt.detach()
    got = [len(e[2]) for e in rt.log if e[0] == "flush_body"]
    res["evaluations"] = 1
    res["nontrivial"].append(hash((shape, f, d)) & 0xFFFFFFFFFF)
    c["shape_cases"] = 1
    c["shape_" + shape] = 1
    c["shape_max_items_in_one_flush"] = max(got or [0])
    if not ok or got != want_flushes:
        res["violations"].append(
            {
                "oracle": "shape-flush-count",
                "mechanism": "shape-flush-count",
                "detail": {"shape": unit["shape"], "flush_sizes": got[:30], "expected": want_flushes[:30], "value_ok": ok},
                "case": {"cases": unit["cases"], "mode": "shape", "shape": unit["shape"]},
            }
        )
    res["samples"].append({"shape": unit["shape"], "flush_sizes": got[:12]})
    return res


def reach(c, tier):
    out = []
    for k in ("n_flush_checks", "critical_path_checks", "programs_whose_requests_become_issuable_at_different_rounds", "programs_with_2plus_flush_orders", "shape_cases"):
        if not c.get(k):
            out.append("%s is zero" % k)
    return out
