"""C08 - active task is always the running one; scheduler is clean after any outcome."""
import random

from .. import gen, lang, ref, tl

ID = "C08"
LEVEL = "fault_enumeration"
RULE = (
    "seeded HISTORIES of 3-10 computations run one after another on one thread WITHOUT resetting the scheduler; each "
    "computation is a Tasklang program (sync re-entry nested up to 4 deep, synchronous waits on shared tasks created by other tasks, several batch kinds, contexts) with failures "
    "drawn from every class: raise at any task step, item error/unset, flush body raising, failing lazy Future, "
    "ErrorFuture, junk, AsyncContext.resume()/pause() raising at their n-th call, an on_before_batch_flush subscriber "
    "raising, the scheduler's own flush() call raising, NonAsyncContext aborts, and runaway task recursion stopped by a lowered MAX_TASK_STACK_SIZE (at top "
    "level and inside nested sync calls). The exception a computation ends with must be one that was injected (not an internal IndexError/KeyError/"
    "FutureIsAlreadyComputed...). Probes: at every body step and after every nested sync call returns, "
    "get_active_task() is the task running that body (identified through its public args); after the outermost call "
    "returns it is None. After every computation: str(get_scheduler()) and the public attributes show 0 tasks and no "
    "active task, and a canary program run next on the same scheduler must produce exactly the trace (outcome, flush "
    "compositions and order, context events) it produces on a fresh scheduler. "
    "distinct = (program hash, fault config); non-trivial = the computation ended with an exception or tripped the guard."
)
RULE += (
    " The runaway tasks yield the recursive call alone, after a batch item, after a lazy future, or inside a "
    "dict with constants. A structured family fails a task from outside while it is suspended (an inner "
    "context cannot be re-activated) and makes its body raise once more while its generator is closed (an "
    "outer context's pause() failing in __exit__). Bodies that keep executing inside generator.close() of a "
    "task that already has its outcome are counted, not judged. Another structured family lets a task SURVIVE "
    "the guard (it catches the RuntimeError of its nested synchronous call) and go on with further synchronous "
    "calls, contexts and batched work, with the active-task probes applied throughout. A third of the "
    "computations started with .value() run a task that was BUILT before the thread's scheduler was replaced "
    "by scheduler.reset()."
)
ASSUMPTIONS = [
    "BaseException failures are outside the statement ('any Exception') and are not injected here",
    "in RANDOM programs, after the runaway-recursion guard has tripped inside a nested sync call, get_active_task() is only checked again once the computation has ended (the structured 'survivor' family checks a task that catches the guard's error and goes on)",
]
UNIT_TIMEOUT = {"quick": 150, "thorough": 2400}

COMMON = dict(
    p_shared=0.4,
    p_syncshared=0.5,
    p_item_fault=0.10,
    p_flush_fault=0.12,
    p_wrap=0.4,
    max_nodes=12,
    item_fault_modes=["error", "unset", "falsyerror"],
    exc_cls=["exc", "exc", "falsy", "frozen", "tasky", "typed"],
    try_kinds=["exc", "exc", "none"],
    w_stmt=dict(sync=2.2, raise_=0.6, try_=1.0, with_=1.6, ret=0.3, orphan=0.3, read=0.3),
    w_leaf=dict(call=6, item=5, err=0.4, junk=0.08, lazy=0.5, again=0.4, dbg=0.0, const=0.8),
    lazy_modes=["ok", "raise"],
    p_try_raise=0.4,
    ctxs=["actx", "actx", "ov", "attr"],
    kinds=2,
)
PROFILE = gen.profile(**COMMON)
PROFILE_NA = gen.profile(**dict(COMMON, p_shared=0.0, ctxs=["actx", "nonasync", "ov"], w_stmt=dict(COMMON["w_stmt"], sync=0.8)))
CANARY = gen.profile(
    p_shared=0.0,
    max_nodes=6,
    kinds=2,
    w_stmt=dict(sync=0.8, raise_=0, try_=0.3, with_=1.5, ret=0, orphan=0, read=0.5),
    w_leaf=dict(call=5, item=6, err=0, junk=0, lazy=0.2, again=0.2, dbg=0, const=0.5),
    lazy_modes=["ok"],
    p_try_raise=0,
    ctxs=["actx", "ov"],
)
HOWS = ["call", "value", "yielded", "yielded_value"]
CANARY_PRIO = ("kindonly", [-7, -9])


def plan(tier, seed, build, scale):
    n = int((480 if tier == "quick" else 30000) * scale)
    per = max(1, n // (12 if tier == "quick" else 48))
    units = []
    a = 0
    while a < n:
        units.append({"cases": [a, min(n, a + per)]})
        a += per
    return units


def canary_trace(rt, out):
    tr = [("out", repr(out[:2]))]
    for ev in rt.log:
        if ev[0] in ("flush_before", "flush_body", "flush_after", "ctx_resume", "ctx_pause", "ctx_enter", "ctx_exit"):
            tr.append(ev)
    reads = tuple((p, tuple(r for r in f.received if r[0] == "read")) for p, f in sorted(rt.frames.items(), key=repr))
    tr.append(("reads", reads))
    return tr


def run_canary(prog, seed, fresh):
    from .. import harness

    rt = harness.HarnessRT(prog, prio=CANARY_PRIO, seed=seed)
    out = rt.run("call", fresh_scheduler=fresh)
    return canary_trace(rt, out), rt


def scheduler_state():
    import re
    import asynq

    s = asynq.scheduler.get_scheduler()
    txt = str(s)
    m = re.search(r"\((\d+) tasks, (\d+) batches; active task: (.*)\)$", txt, re.S)
    parsed = (int(m.group(1)), int(m.group(2)), m.group(3)) if m else None
    return s, txt, parsed


def make_case(cs, rnd):
    """One computation of a history: (program, options)."""
    kind = rnd.choice(["plain", "plain", "ctxfault", "ctxfault", "before", "runaway", "runaway", "nonasync", "evilflush", "closefail", "survivor"])
    opts = {"kind": kind}
    if kind == "closefail":
        return closefail_program(rnd), opts
    if kind == "survivor":
        prog = gen.survivor_program(rnd)
        opts["max_stack"] = prog["max_stack"]
        return prog, opts
    if kind == "nonasync":
        prog = gen.generate(cs, PROFILE_NA)
    else:
        prog = gen.generate(cs, PROFILE)
    if kind == "ctxfault":
        names = [st[1][1] for node in prog["nodes"] for st in lang.iter_stmts(node["body"]) if st[0] == "with" and st[1][0] == "actx"]
        if names:
            prog["ctx_faults"] = {}
            for nm in rnd.sample(names, min(len(names), rnd.randint(1, 2))):
                prog["ctx_faults"][nm] = [rnd.choice(["resume", "pause", "pause"]), rnd.randint(1, 3), rnd.choice(["exc", "exc", "frozen", "tasky", "falsy"])]
    elif kind == "before":
        opts["before_raise"] = rnd.randint(1, 3)
    elif kind == "evilflush":
        # the scheduler's own batch.flush() call raises (flushed by a before-subscriber / overridden flush() /
        # _try_switch_active_batch raising)
        opts["evil"] = [rnd.choice(["preflush", "override", "switch"]), rnd.randrange(3)]
    elif kind == "runaway":
        # replace one leaf (anywhere, so also under nested sync calls) by a runaway chain
        from .. import faults

        slots, leaves = faults.index(prog)
        if leaves:
            struct, nid, top = rnd.choice(leaves)
            struct[1] = [rnd.choice(["runaway", "runaway", "lazyrunaway"]), rnd.choice([120, 300, 700]), rnd.choice([0, 0, 1, 2, 3, 4, 4])]
            opts["max_stack"] = rnd.choice([50, 100])
            # bodies must not swallow the guard's RuntimeError and continue on a reset scheduler
            for node in prog["nodes"]:
                _strip_tries(node["body"])
        else:
            opts["kind"] = "plain"
    return prog, opts


def closefail_program(rnd):
    """A task is failed from OUTSIDE its code while suspended (an inner context cannot be re-activated after the
    flush), and when its generator is then closed, the body raises once more (an outer context's pause() fails in
    __exit__, or a finally block raises): nobody is left to take that second exception."""
    n = [0]

    def item():
        n[0] += 1
        return ["leaf", ["item", rnd.randrange(2), "cf%d" % n[0]]]

    inner_n = rnd.choice([1, 1, 2])
    # the victim's body: with outer: with inner: yield item (x inner_n)
    ys = [["yield", item()] for _ in range(inner_n)]
    body = [["with", ["actx", "cf_outer"], [["with", ["actx", "cf_inner"], ys]]]]
    if rnd.random() < 0.4:
        body = [["with", ["actx", "cf_ok"], body]]
    if rnd.random() < 0.3:
        body.insert(0, ["yield", item()])
    victim = {"style": rnd.choice(["asynq", "method", "proxy"]), "ret": "return", "body": body}
    sib = {"style": "asynq", "ret": "return", "body": [["with", ["actx", "cf_sib"], [["yield", item()], ["yield", item()]]]]}
    members = [["leaf", ["call", "cfc1", 1]], ["leaf", ["call", "cfc2", 2]]]
    rnd.shuffle(members)
    root_body = [["yield", [rnd.choice(["list", "tuple"]), members]]]
    if rnd.random() < 0.5:
        root_body = [["try", root_body, "exc", [["yield", item()]], []], ["yield", item()]]
    k = rnd.randint(1, inner_n)  # the re-activation that fails: after the k-th suspension
    return {
        "nodes": [{"style": "asynq", "ret": "return", "body": root_body}, victim, sib],
        "root": 0,
        "shared": [],
        "kinds": 2,
        "faults": {},
        "flush_faults": {},
        # inner: resume() call 1 is the entry, call k+1 the k-th re-activation; outer: pause() call k was the k-th
        # suspension, call k+1 is the one made by __exit__ while the generator is closed
        "ctx_faults": {"cf_inner": ["resume", k + 1, rnd.choice(["exc", "frozen", "falsy"])], "cf_outer": ["pause", k + 1, rnd.choice(["exc", "exc", "tasky"])]},
        "defaults": {"sv0": "dflt-sv0", "sv1": "dflt-sv1", "at0": "dflt-at0"},
    }


def _strip_tries(block):
    for st in block:
        if st[0] == "try":
            st[2] = "none"
            st[3] = []
            _strip_tries(st[1])
        elif st[0] == "with":
            _strip_tries(st[2])


def run_unit(unit, progress):
    import asynq
    from asynq import scheduler as asynq_scheduler
    from .. import harness, monitors as M

    res = tl.new_result()
    c = res["counters"]

    def inc(k, n=1):
        c[k] = c.get(k, 0) + n

    a, b = unit["cases"]
    for i in range(a, b):
        progress(i)
        hs = tl.case_seed(unit["seed"], ID, i)
        rnd = random.Random(hs)
        canary = gen.generate(hs ^ 0xCA, CANARY)
        base_trace, _ = run_canary(canary, hs, True)
        if base_trace[0][1].startswith("('exc'"):
            inc("canary_regenerated")
        asynq_scheduler.reset()
        harness.reset_debug_batches()
        nsteps = rnd.randint(3, 10)
        history = []
        bad = False
        for step in range(nsteps):
            cs = tl.case_seed(hs, "step", step)
            prog, opts = make_case(cs, random.Random(cs))
            how = rnd.choice(HOWS)
            rt = harness.HarnessRT(prog, prio=rnd.choice([None, ("tie",), ("kind", [1, 0]), ("fewest",)]), seed=cs)
            tripped = []
            if True:
                rt.step_probes.append(M.active_task_probe)
                rt.ctx_probes.append(lambda rt_, ctx, what: M.stale_active_probe(rt_, "context " + what))
                rt.flush_probes.append(lambda rt_, b, items: M.stale_active_probe(rt_, "flush body"))
                rt.provider_probes.append(lambda rt_: M.stale_active_probe(rt_, "value provider"))

                def after_sync(rt_, fr, ok):
                    rt_.n_after_sync = getattr(rt_, "n_after_sync", 0) + 1
                    t = asynq_scheduler.get_active_task()
                    mine = rt_.task_of_frame.get(id(fr))
                    if mine is not None and mine.is_computed():
                        # a body still executing although its task already has its outcome: it was failed from
                        # outside, and while its generator was being closed it swallowed the exception of its own
                        # teardown (a context's pause() failing in __exit__) and carried on. The statement is about
                        # tasks that are running; this one is over.
                        rt_.n_zombie_bodies = getattr(rt_, "n_zombie_bodies", 0) + 1
                        return
                    if mine is not None and t is not mine:
                        rt_.violation("active-task-wrong-after-nested-sync-call", {"task": fr.path, "nested_call_returned_normally": ok, "active": repr(t)[:160]})

                rt.sync_probes.append(after_sync)
            rt.before_raise = opts.get("before_raise")
            if opts.get("evil"):
                rt.evil = tuple(opts["evil"])
            old_max = asynq.debug.options.MAX_TASK_STACK_SIZE
            old_dump = asynq.debug.options.DUMP_PRE_ERROR_STATE
            if "max_stack" in opts:
                asynq.debug.options.MAX_TASK_STACK_SIZE = opts["max_stack"]
                asynq.debug.options.DUMP_PRE_ERROR_STATE = False
            run_how = how
            if how == "value" and rnd.random() < 0.35 and rt.style_of(prog.get("root", 0)) in ("asynq", "method", "proxy", "classmethod", "staticmethod", "explicit"):
                # the task object is built first (nothing of a generator task's body runs then), the thread's
                # scheduler is thrown away with the public scheduler.reset() - it is clean at this point - and
                # only then the task is computed: by whatever scheduler the thread has NOW
                rt.prebuilt = harness.make_task(rt.style_of(prog.get("root", 0)), rt, lang.Frame(prog.get("root", 0), (), None))
                asynq_scheduler.reset()
                run_how = "prebuilt"
                inc("computations_of_a_task_built_before_the_scheduler_was_replaced")
            try:
                out = rt.run(run_how, fresh_scheduler=False)
            finally:
                asynq.debug.options.MAX_TASK_STACK_SIZE = old_max
                asynq.debug.options.DUMP_PRE_ERROR_STATE = old_dump
            res["evaluations"] += 1
            tl.harvest(rt, c)
            inc("active_task_checks_in_scheduler_run_code", getattr(rt, "n_stale_active_checks", 0))
            inc("after_sync_checks", getattr(rt, "n_after_sync", 0))
            inc("sync_calls_made_by_bodies_whose_task_was_already_over", getattr(rt, "n_zombie_bodies", 0))
            if opts["kind"] == "survivor":
                inc("tasks_going_on_after_surviving_the_recursion_guard", sum(1 for ev in rt.log if ev[0] == "sync_exit" and ev[2][-1:] in (("sv_s2",), ("sv_s3",))))
            if opts["kind"] == "closefail" and sum(1 for ev in rt.log if ev[0] == "ctx_fault") >= 2:
                inc("bodies_raising_while_their_generator_is_closed")
            inc("sync_waits_on_a_task_created_elsewhere", sum(1 for ev in rt.log if ev[0] == "sync_enter" and ev[2][:1] == ("S",)))
            history.append({"program": prog, "opts": opts, "how": how, "outcome": tl.short(out[:2], 160)})
            ended_exc = out[0] == "exc"
            if ended_exc:
                inc("computations_ended_with_exception")
                d = out[1]
                cls = "other"
                if d and d[0] == "RuntimeError" and "exceeded maximum" in str(d):
                    cls = "recursion_guard"
                elif d and d[0] == "UserErr" and isinstance(d[1], tuple):
                    cls = str(d[1][0])
                elif d:
                    cls = str(d[0])
                if opts.get("evil") and rt.evil_fired:
                    cls = "failing_flush_call"
                inc("ended_by_" + cls)
                res["nontrivial"].append(hash((lang.struct_hash(prog), repr(sorted(opts.items())))) & 0xFFFFFFFFFFFF)
            else:
                inc("computations_ended_with_value")
            if rt.evil_fired:
                pass
            # ---- the way it ended must be explained by a failure that was injected
            if ended_exc:
                d = out[1]
                explained = (
                    d[0] in ("UserErr", "UserBaseErr", "TypeError", "Unset", "NonAsync", "BatchingError", "BatchCancelledError")
                    or (d[0] == "RuntimeError" and "exceeded maximum" in str(d))
                )
                if not explained:
                    rt.violation("computation-ended-with-an-error-nobody-injected", {"exception": tl.short(d, 200), "computation_kind": opts["kind"]})
            # ---- after the outermost call returned
            s, txt, parsed = scheduler_state()
            inc("cleanliness_checks")
            problems = []
            if asynq_scheduler.get_active_task() is not None:
                problems.append(("get_active_task() after the outermost call returned", repr(asynq_scheduler.get_active_task())[:200]))
            if len(s._tasks) != 0:
                problems.append(("scheduler retains tasks", len(s._tasks)))
            if parsed is None:
                res["faults"].append("cannot parse str(scheduler): %r" % txt[:200])
            elif parsed[0] != 0 or parsed[2] != "None":
                problems.append(("str(get_scheduler())", txt[:300]))
            # scoped values and attributes are back to what they were before the computation, however it ended
            import gc

            gc.collect()
            for name, dv in rt.defaults.items():
                cur = rt.read(None, name)
                if cur != dv:
                    problems.append(("scoped value %s after the computation" % name, repr(cur)[:80]))
            # ... and no task still running ever read the override of an abandoned runaway level
            for fr in rt.frames.values():
                for r_ in fr.received:
                    if r_[0] == "read" and isinstance(r_[2][1], tuple) and r_[2][1][:1] == ("runaway-level",):
                        problems.append(("read by task %r" % (fr.path,), repr(r_[2][1])))
                        break
            for what, val in problems:
                rt.violation("scheduler-not-clean-after-computation", {"what": what, "value": val, "computation_kind": opts["kind"], "outcome": tl.short(out[:2], 200)})
            # ---- canary on the same scheduler
            ctrace, crt = run_canary(canary, hs, False)
            inc("canary_runs")
            if ctrace != base_trace:
                n = 0
                while n < len(ctrace) and n < len(base_trace) and ctrace[n] == base_trace[n]:
                    n += 1
                leftover = len(s._batches)
                rt.violation(
                    "next-computation-differs-from-fresh-scheduler",
                    {
                        "first_difference_at": n,
                        "fresh": tl.short(base_trace[n] if n < len(base_trace) else None, 200),
                        "after_history": tl.short(ctrace[n] if n < len(ctrace) else None, 200),
                        "computation_kind": opts["kind"],
                        "outcome": tl.short(out[:2], 200),
                    },
                )
            s2, txt2, parsed2 = scheduler_state()
            if len(s2._tasks) != 0 or asynq_scheduler.get_active_task() is not None:
                rt.violation("scheduler-not-clean-after-canary", {"str": txt2[:300]})
            if rt.violations and not bad:
                bad = True
                for v in rt.violations[:3]:
                    res["violations"].append(
                        {
                            "oracle": v["oracle"],
                            "mechanism": classify(v, opts, out, rt),
                            "detail": {"step": step, "violation": v["detail"], "history": history},
                            "case": {"cases": [i, i + 1]},
                        }
                    )
                # do not let one dirty scheduler cascade through the rest of the history
                asynq_scheduler.reset()
                harness.reset_debug_batches()
                break
        inc("histories")
        if len(res["samples"]) < 1 and i == a:
            res["samples"].append({"history": [{"kind": h["opts"]["kind"], "how": h["how"], "outcome": h["outcome"]} for h in history]})
    return res


def classify(v, opts, out, rt):
    """Mechanism key: which oracle fired, after which class of ending."""
    o = v["oracle"]
    d = v["detail"]
    end = "value"
    if out[0] == "exc":
        e = out[1]
        if e and e[0] == "RuntimeError" and "exceeded maximum" in str(e):
            end = "recursion-guard"
        elif e and e[0] == "NonAsync":
            end = "nonasync-abort"
        elif e and e[0] == "UserErr" and isinstance(e[1], tuple):
            end = str(e[1][0])
            if end == "ctx":
                end = "ctx-" + str(e[1][1])
        elif e:
            end = str(e[0])
    aborted = any(ev[0] == "na_exit" and ev[2] is not None and "Exit" in ev[2] for ev in rt.log)
    ctxf = bool(rt.prog.get("ctx_faults")) and any(ev[0] in ("ctx_resume", "ctx_pause") for ev in rt.log)
    tags = []
    if aborted:
        tags.append("task-aborted-by-NonAsyncContext")
    if rt.prog.get("ctx_faults"):
        tags.append("context-callback-raised")
    return "%s/after:%s%s" % (o, end, ("/" + "+".join(tags)) if tags else "")


def reach(c, tier):
    out = []
    for k in (
        "n_active_checks",
        "after_sync_checks",
        "cleanliness_checks",
        "canary_runs",
        "ended_by_recursion_guard",
        "ended_by_raise",
        "ended_by_item",
        "ended_by_flush",
        "ended_by_lazy",
        "ended_by_ctx",
        "ended_by_before-subscriber",
        "ended_by_NonAsync",
        "ended_by_failing_flush_call",
        "sync_waits_on_a_task_created_elsewhere",
        "bodies_raising_while_their_generator_is_closed",
        "tasks_going_on_after_surviving_the_recursion_guard",
    ):
        if not c.get(k):
            out.append("%s is zero" % k)
    return out
