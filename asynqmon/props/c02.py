"""C02 - failures propagate like sequential exceptions, after all siblings finish."""
import random

from .. import faults, gen, lang, ref, tl

ID = "C02"
LEVEL = "fault_enumeration"
RULE = (
    "seeded fault-free base programs (tasks, nested structures, several batch kinds, sync re-entry, try/except, "
    "contexts, shared tasks); for each base EVERY single fault position is enumerated (each yielded leaf turned into "
    "ErrorFuture(Exception|BaseException) / failing lazy Future / non-future junk, each batch item errored / left unset, "
    "a raise inserted before each statement, each flush raising at offset 0/1) x try/except placed at no level, in the "
    "failing task, in its callers, in their callers; thorough adds random fault pairs. Oracles: at every exception "
    "delivery all sibling futures are computed and the delivered object IS error() of the first failing future in "
    "structure order (TypeError for junk); root outcome and every task's received values equal the sequential reference "
    "(fed with what each flush did when flushes themselves fail); the exception escaping value() is the raised instance. "
    "distinct = (base hash, fault, level); non-trivial = some exception was delivered at a yield or escaped the root."
)
RULE += (
    " A separate unit delivers failures whose CLASS is special (StopIteration, a subclass of it, "
    "StopAsyncIteration, KeyError, a two-argument exception) from ErrorFuture / lazy future / batch item "
    "inside 11 yield shapes to a body that catches them in the frame that yielded: the very instance must "
    "arrive. Exception class 'typed' (the class has an attribute of its own called _type_) is part of every "
    "fault plan."
)
ASSUMPTIONS = [
    "faults are injected only where user code can put one (task bodies, flush bodies, value providers)",
    "fault positions are exhaustive per base program for single faults; bases and fault pairs are sampled",
]
UNIT_TIMEOUT = {"quick": 150, "thorough": 2400}

BASE = gen.profile(
    struct_depth_choices=[1, 2, 2, 3, 4],
    max_nodes=7,
    max_stmts=3,
    max_width=3,
    w_stmt=dict(raise_=0.0, orphan=0.0, ret=0.2, try_=1.6),
    w_leaf=dict(err=0, lazy=0.3, junk=0, again=0.4, dbg=0.2),
    lazy_modes=["ok"],
    p_try_raise=0.0,
    p_item_fault=0.0,
    kinds=2,
    max_instances=60,
)
MONITORS = ("resume", "refeq", "identity", "flushbook", "afterdone")
HOWS = ["call", "value", "yielded", "yielded_value"]


def plan(tier, seed, build, scale):
    n = int((48 if tier == "quick" else 1000) * scale)
    per = max(1, n // 16) if tier == "quick" else max(1, n // 48)
    units = [{"mode": "special", "cases": [0, 1]}]
    a = 0
    while a < n:
        units.append({"cases": [a, min(n, a + per)], "pairs": 0 if tier == "quick" else 40})
        a += per
    return units


def run_special_classes(res, c):
    """Failures whose CLASS is special to generators (StopIteration and subclasses, StopAsyncIteration) or otherwise
    unusual (KeyError, an Exception subclass with a required constructor argument), delivered at a yield of every
    shape by every kind of non-task future, and caught right there: the body must get the very instance."""
    import asynq
    from asynq import ConstFuture, Future
    from asynq import asynq as A
    from asynq.futures import ErrorFuture
    from .. import harness

    class MyStop(StopIteration):
        pass

    class Needy(Exception):
        def __init__(self, a, b):
            Exception.__init__(self, a, b)

    makers = {
        "StopIteration": lambda: StopIteration("exhausted"),
        "StopIteration-subclass": lambda: MyStop(1, 2),
        "StopAsyncIteration": lambda: StopAsyncIteration(),
        "KeyError": lambda: KeyError("k"),
        "two-argument-exception": lambda: Needy(1, 2),
    }
    shapes = ["single", "tuple1", "tuple2-first", "tuple2-last", "tuple3", "tuple4-middle", "list3", "dict", "nested-tuple3-in-list", "tuple3-in-dict", "tuple5-nested-tuple3"]
    sources = ["ErrorFuture", "lazy", "item"]
    for cname, mk in sorted(makers.items()):
        for source in sources:
            for shape in shapes:
                asynq.scheduler.reset()
                rt = harness.HarnessRT({"nodes": [], "kinds": 1})
                err = mk()
                seen = []

                class FailingBatch(asynq.BatchBase):
                    def _try_switch_active_batch(self):
                        pass

                    def _flush(self):
                        for it in self.items:
                            if getattr(it, "fails", False):
                                it.set_error(err)
                            else:
                                it.set_value("ok")

                    def _cancel(self):
                        pass

                class Item(asynq.BatchItemBase):
                    fails = False

                fb = FailingBatch()

                def failing():
                    if source == "ErrorFuture":
                        return ErrorFuture(err)
                    if source == "lazy":
                        def prov():
                            raise err

                        return Future(prov)
                    it = Item(fb)
                    it.fails = True
                    return it

                def ok():
                    return Item(fb)

                def build():
                    f = failing()
                    if shape == "single":
                        return f
                    if shape == "tuple1":
                        return (f,)
                    if shape == "tuple2-first":
                        return (f, ok())
                    if shape == "tuple2-last":
                        return (ConstFuture(1), f)
                    if shape == "tuple3":
                        return (ok(), f, ConstFuture(2))
                    if shape == "tuple4-middle":
                        return (ConstFuture(0), ok(), f, ok())
                    if shape == "list3":
                        return [ok(), f, ConstFuture(2)]
                    if shape == "dict":
                        return {"a": ok(), "b": f}
                    if shape == "nested-tuple3-in-list":
                        return [ConstFuture(1), (ok(), ConstFuture(5), f)]
                    if shape == "tuple3-in-dict":
                        return {"a": (ConstFuture(1), f, ok())}
                    return (ConstFuture(1), ok(), ConstFuture(2), (ConstFuture(3), f, ok()), None)

                @A()
                def body():
                    try:
                        yield build()
                    except BaseException as e:  # caught in the very frame that yielded
                        seen.append(e)
                        return "caught"
                    return "no failure delivered"

                try:
                    out = ("val", body())
                except BaseException as e:
                    out = ("exc", type(e).__name__, str(e)[:80])
                res["evaluations"] += 1
                c["special_exception_class_deliveries"] = c.get("special_exception_class_deliveries", 0) + 1
                bad = None
                if out != ("val", "caught"):
                    bad = ("failure-not-delivered-at-the-yield", {"outcome": repr(out)[:160]})
                elif seen[0] is not err:
                    bad = ("another-exception-delivered-instead-of-the-instance", {"delivered": repr(seen[0])[:120], "cause": repr(getattr(seen[0], "__cause__", None))[:80]})
                if bad is not None and len(res["violations"]) < 8:
                    res["violations"].append(
                        {"oracle": bad[0], "mechanism": bad[0] + "/" + cname, "detail": dict(bad[1], exception_class=cname, source=source, shape=shape), "case": {"mode": "special", "cases": [0, 1]}}
                    )
                res["nontrivial"].append(hash(("special", cname, source, shape)) & 0xFFFFFFFFFFFF)


def run_unit(unit, progress):
    from .. import harness

    res = tl.new_result()
    c = res["counters"]
    reached = {}
    if unit.get("mode") == "special":
        progress(0)
        run_special_classes(res, c)
        return res

    def inc(k, n=1):
        c[k] = c.get(k, 0) + n

    a, b = unit["cases"]
    for i in range(a, b):
        progress(i)
        cs = tl.case_seed(unit["seed"], ID, i)
        base = gen.generate(cs, BASE)
        rnd = random.Random(cs ^ 0xC02)
        try:
            bexp, brt = ref.evaluate(base)
        except lang.HarnessFault:
            inc("ref_budget_skips")
            continue
        bh = lang.struct_hash(base)
        # how many batches does the base create? (flush fault positions)
        rt0 = harness.HarnessRT(base)
        rt0.run("call")
        nb = len(rt0.batches)
        pos = faults.positions(base, min(nb, 4))
        variants = [(f, lv) for f in pos for lv in (0, 1, 2, 3)]
        for _ in range(unit.get("pairs", 0)):
            variants.append(((("pair", rnd.choice(pos), rnd.choice(pos))), rnd.choice([0, 1, 2])))
        inc("bases")
        inc("fault_positions", len(pos))
        vbad = 0
        for vi, (f, lv) in enumerate(variants):
            if f[0] == "pair":
                if f[1][:2] == f[2][:2]:
                    continue
                try:
                    p1 = faults.apply(base, f[1], lv)
                    # positions of the second fault refer to the base program; the first mutation may have
                    # shifted them - then this is simply another (still valid) double fault, or it does not apply
                    prog = faults.apply(p1, f[2], 0) if p1 is not None else None
                except (IndexError, KeyError):
                    prog = None
                if prog is None:
                    continue
                inc("fault_pairs_run")
            else:
                prog = faults.apply(base, f, lv)
                if prog is None:
                    continue
            how = HOWS[(i + vi) % 4]
            pol = tl.policies(prog, rnd, 1)[-1] if vi % 3 == 0 else None
            try:
                rt, out, exp, rrt = tl.execute(prog, how, pol, cs, MONITORS)
            except lang.HarnessFault as e:
                res["faults"].append("case %d fault %r: %r" % (i, f, e))
                continue
            res["evaluations"] += 1
            tl.harvest(rt, c)
            delivered = getattr(rt, "n_exc_resumes", 0)
            if delivered or out[0] == "exc":
                res["nontrivial"].append(hash((bh, repr(f), lv)) & 0xFFFFFFFFFFFF)
                reached[f[0] + ":" + str(f[2] if f[0] in ("item", "leaf") else "")] = reached.get(f[0] + ":" + str(f[2] if f[0] in ("item", "leaf") else ""), 0) + 1
            for ev in rt.log:
                if ev[0] == "caught":
                    inc("catches")
                    d = ev[2]
                    if len(d) > 1 and isinstance(d[1], tuple) and d[1] and d[1][0] == "raise":
                        origin = d[1][2]
                        if isinstance(origin, tuple) and len(origin) - len(ev[1]) >= 2:
                            inc("catches_2plus_levels_above_the_raise")
            if rt.violations and vbad < 2:
                vbad += 1
                for v in rt.violations[:3]:
                    res["violations"].append(
                        {
                            "oracle": v["oracle"],
                            "mechanism": classify(v, prog, f),
                            "detail": {"fault": f, "try_level": lv, "how": how, "prio": pol, "violation": v["detail"], "program": prog},
                            "case": {"cases": [i, i + 1]},
                        }
                    )
            if len(res["samples"]) < 2 and delivered >= 2 and f[0] != "pair":
                res["samples"].append({"base_program": base, "fault": f, "try_level": lv, "expected": tl.short(exp, 300), "exception_deliveries_observed": delivered})
    for k, v in reached.items():
        c["reached_" + k] = v
    return res


def classify(v, prog, f):
    return v["oracle"]


def reach(c, tier):
    out = []
    for k in ("n_exc_resumes", "n_multi_fail", "catches_2plus_levels_above_the_raise", "n_identity_checks", "reached_item:error", "reached_item:unset", "reached_leaf:lazy", "reached_leaf:junk", "reached_flush:", "reached_raise:"):
        if not c.get(k):
            out.append("%s is zero" % k)
    return out
