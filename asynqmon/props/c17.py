"""C17 - async generators deliver their Values in order, and only those."""
import itertools
import random

from .. import tl
from ..lang import UserErr, exc_desc

ID = "C17"
LEVEL = "exploration"
RULE = (
    "seeded @async_generator() bodies of up to 12 operations, each either an await (a batch item, a child task, a "
    "constant future, a list/tuple/dict of 0-3 of them - empty containers included - or a bare None) or a Value (also instances of a Value subclass; some carrying as payload a FUTURE - a constant future or a not yet started task, which must arrive as that very object, uncomputed - or a matcher object that compares equal to everything); bodies with awaits after the last Value, with no "
    "Values, empty bodies, and bodies that re-yield the Values of a nested async generator. For each body: "
    "list_of_generator == the Values in program order; take_first(gen, n) for every n in 0..len+2 == the first n and "
    "the body's own operation counter shows nothing beyond the n-th Value was executed; two successive take_first "
    "calls on one generator continue where the first stopped; END_OF_GENERATOR never appears; advancing while the "
    "previously returned task is uncomputed raises RuntimeError on every attempt (3 in a row) and works again once it "
    "is computed; an exhausted generator raises StopIteration on each of 3 further advances. Both builds. "
    "distinct = body hash; non-trivial = at least 1 await and 1 Value."
)
RULE += (
    " 30% of the bodies hold a context (an AsyncContext subclass or a scoped-value override) across a span of "
    "operations - entered at one step, left several awaits and Values later: resume/pause must alternate and "
    "the scoped value be restored. Unit midstep: a sibling task tries to advance the generator while the "
    "handed-out task is suspended at a later await of its step: RuntimeError every time, the body receives "
    "what it awaited. While a handed-out task is uncomputed the generator is also advanced through take_first, "
    "list_of_generator and a for loop: RuntimeError."
)
ASSUMPTIONS = ["generator bodies are deterministic and side-effect free apart from the operation counter"]
UNIT_TIMEOUT = {"quick": 200, "thorough": 2400}


def make_body(rnd, allow_nested=True):
    n = rnd.choice([0, 1, 2, 3, 4, 5, 6, 8, 10, 12])
    ops = []
    v = -1
    for _ in range(n):
        r = rnd.random()
        if r < 0.45:
            v += 1  # the first Value is 0: falsy values must be delivered like any other
            # one Value in five carries a FUTURE as its payload (generators handing out work for the caller to batch)
            ops.append(["value", v, rnd.random() < 0.3, rnd.choice([None, None, None, None, None, None, "const", "task", "any", "wild"])])
        elif r < 0.9 or not allow_nested:
            shape = rnd.choice(["one", "one", "list", "tuple", "list", "tuple", "dict", "none"])
            k = 1 if shape == "one" else (0 if shape == "none" else rnd.choice([0, 1, 2, 3]))
            ops.append(["await", shape, [rnd.choice(["item", "item", "task", "const"]) for _ in range(k)]])
        else:
            inner = make_body(rnd, allow_nested=False)
            for op in inner:
                if op[0] == "value":
                    v += 1
                    op[1] = v
            ops.append(["nested", inner])
    trailing = rnd.choice([0, 0, 1, 2, 3])
    for _ in range(trailing):
        ops.append(["await", "one", [rnd.choice(["item", "task"])]])
    if allow_nested and ops and rnd.random() < 0.3:
        # a context (an AsyncContext subclass or a scoped-value override) entered at one point of the body and left at a
        # later one - steps, awaits and Values in between
        i = rnd.randint(0, len(ops) - 1)
        j = rnd.randint(i + 1, len(ops))
        ops.insert(j, ["leave"])
        ops.insert(i, ["enter", rnd.choice(["actx", "override"])])
    return ops


def values_of(ops):
    out = []
    for op in ops:
        if op[0] == "value":
            out.append(("fut", op[1]) if len(op) > 3 and op[3] else op[1])
        elif op[0] == "nested":
            out.extend(values_of(op[1]))
    return out


def ops_needed(ops, n):
    """Number of top-level operations executed once the n-th Value has been
    delivered (nested bodies count as one operation while in progress)."""
    if n <= 0:
        return 0
    seen = 0
    for idx, op in enumerate(ops):
        if op[0] == "value":
            seen += 1
        elif op[0] == "nested":
            seen += len(values_of(op[1]))
        if seen >= n:
            return idx + 1
    return len(ops)


class Ctx(object):
    def __init__(self, rt):
        self.rt = rt
        self.executed = 0
        self.bad_resume = None
        self.ctr = itertools.count()
        self.payloads = {}
        self.ctx_events = []
        self.contexts_entered = 0
        self.scoped = None

    def norm(self, out):
        """Payload futures are created inside the body: name them by the Value they belong to (by identity)."""
        if out[0] != "val" or not isinstance(out[1], list):
            return out
        lst = []
        for x in out[1]:
            try:
                ent = self.payloads.get(id(x))
            except Exception:
                ent = None
            lst.append(("fut", ent[0]) if ent is not None and ent[1] is x else x)
        return ("val", lst)

    def payload_computed(self):
        for v, f, kind in self.payloads.values():
            if kind == "task" and f.is_computed():
                return v
        return None


def build(ctx):
    from asynq import AsyncContext, AsyncScopedValue, ConstFuture, END_OF_GENERATOR, Value, async_generator
    from asynq import asynq as A
    from .. import harness

    ctx.scoped = AsyncScopedValue("outside")

    @A()
    def child(x):
        v = yield harness.HItem(ctx.rt, 1, "t%d" % next(ctx.ctr), ("c17t", x))
        return ("child", x)

    class Wildcard(object):
        """compares equal to everything (a matcher object, like unittest.mock.ANY)"""

        def __eq__(self, other):
            return True

        def __ne__(self, other):
            return False

        __hash__ = object.__hash__

    class AnyLike(object):
        """like unittest.mock.ANY: only __eq__ is overridden (one instance per Value, so that identity tells them apart)"""

        def __eq__(self, other):
            return True

        __hash__ = object.__hash__

    def fut(kind):
        if kind == "any":
            return AnyLike()
        if kind == "wild":
            return Wildcard()
        n = next(ctx.ctr)
        if kind == "item":
            return harness.HItem(ctx.rt, 0, "i%d" % n, ("c17", n))
        if kind == "task":
            return child.asynq(n)
        return ConstFuture(("const", n))

    class Row(Value):
        """user code may subclass Value to carry extra data"""

    def mk(op):
        payload = op[1]
        if len(op) > 3 and op[3]:
            payload = fut(op[3])
            ctx.payloads[id(payload)] = (op[1], payload, op[3])
        return (Row if len(op) > 2 and op[2] else Value)(payload)

    @async_generator()
    def inner_gen(ops):
        for op in ops:
            if op[0] == "await":
                fs = [fut(k) for k in op[2]]
                if op[1] == "one":
                    yield fs[0]
                elif op[1] == "list":
                    yield fs
                elif op[1] == "dict":
                    yield dict(enumerate(fs))
                elif op[1] == "none":
                    yield None
                else:
                    yield tuple(fs)
            else:
                yield mk(op)

    class BodyCtx(AsyncContext):
        def resume(self):
            ctx.ctx_events.append("resume")

        def pause(self):
            ctx.ctx_events.append("pause")

    @async_generator()
    def gen(ops):
        open_ = []
        for op in ops:
            ctx.executed += 1
            if op[0] == "enter":
                cm = BodyCtx() if op[1] == "actx" else ctx.scoped.override("inside")
                cm.__enter__()
                open_.append(cm)
                ctx.contexts_entered += 1
                continue
            if op[0] == "leave":
                open_.pop().__exit__(None, None, None)
                continue
            if open_ and not isinstance(open_[-1], BodyCtx) and ctx.scoped.get() != "inside":
                ctx.bad_resume = ("scoped value inside its override", repr(ctx.scoped.get())[:60])
            if op[0] == "await":
                fs = [fut(k) for k in op[2]]
                if op[1] == "one":
                    got = yield fs[0]
                elif op[1] == "none":
                    got = yield None
                    if got is not None:
                        ctx.bad_resume = ("None", repr(got)[:60])
                elif op[1] == "dict":
                    got = yield dict(enumerate(fs))
                    if not (type(got) is dict and sorted(got) == list(range(len(fs)))):
                        ctx.bad_resume = ("dict", repr(got)[:60])
                elif op[1] == "list":
                    got = yield fs
                    if not (isinstance(got, list) and len(got) == len(fs)):
                        ctx.bad_resume = ("list", repr(got)[:60])
                else:
                    got = yield tuple(fs)
                    if not (isinstance(got, tuple) and len(got) == len(fs)):
                        ctx.bad_resume = ("tuple", repr(got)[:60])
            elif op[0] == "value":
                yield mk(op)
            else:
                for task in inner_gen(op[1]):
                    v = yield task
                    if v is END_OF_GENERATOR:
                        continue
                    yield Value(v)

    return gen


def outcome(fn):
    try:
        return ("val", fn())
    except BaseException as e:
        return ("exc", type(e).__name__, str(e)[:80])


def check_body(ops, res, c):
    import asynq
    from asynq import END_OF_GENERATOR, list_of_generator, take_first
    from .. import harness

    viol = []
    vals = values_of(ops)

    def fresh():
        asynq.scheduler.reset()
        rt = harness.HarnessRT({"nodes": [], "kinds": 2})
        ctx = Ctx(rt)
        return ctx, build(ctx)

    def has_end(x):
        return any(v is END_OF_GENERATOR for v in x) if isinstance(x, list) else False

    # list_of_generator
    ctx, gen = fresh()
    out = ctx.norm(outcome(lambda: list_of_generator(gen(ops))))
    res["evaluations"] += 1
    if ctx.payloads:
        c["runs_with_future_payloads"] = c.get("runs_with_future_payloads", 0) + 1
    if out == ("val", vals) and ctx.payload_computed() is not None:
        viol.append(("payload-future-computed-behind-the-consumers-back", {"value": ctx.payload_computed(), "by": "list_of_generator"}))
    if out != ("val", vals):
        viol.append(("list_of_generator", {"expected": vals, "observed": repr(out)[:200], "END_marker_in_result": has_end(out[1]) if out[0] == "val" else False}))
    elif ctx.contexts_entered:
        c["bodies_holding_a_context_across_steps"] = c.get("bodies_holding_a_context_across_steps", 0) + 1
        ev = ctx.ctx_events
        if ev and (ev[0] != "resume" or ev[-1] != "pause" or any(x == y for x, y in zip(ev, ev[1:]))):
            viol.append(("context-of-a-generator-body-not-alternating-resume-pause", {"events": ev[:12]}))
        if ctx.scoped.get() != "outside":
            viol.append(("scoped-value-not-restored-after-the-generator-finished", {"value": repr(ctx.scoped.get())[:60]}))
    # take_first for every n
    import sys

    for n in list(range(0, len(vals) + 3)) + [sys.maxsize, sys.maxsize + 1, 2 ** 64, 10 ** 30][(len(ops) % 3) : (len(ops) % 3) + 2]:
        ctx, gen = fresh()
        g = gen(ops)
        out = ctx.norm(outcome(lambda: take_first(g, n)))
        res["evaluations"] += 1
        if out == ("val", vals[:n]) and ctx.payload_computed() is not None:
            viol.append(("payload-future-computed-behind-the-consumers-back", {"value": ctx.payload_computed(), "by": "take_first", "n": n}))
            continue
        c["take_first_calls"] = c.get("take_first_calls", 0) + 1
        if n == 0:
            c["take_first_n0"] = c.get("take_first_n0", 0) + 1
        if n > len(vals):
            c["take_first_n_beyond_len"] = c.get("take_first_n_beyond_len", 0) + 1
        if n > sys.maxsize:
            c["take_first_n_beyond_the_machine_word"] = c.get("take_first_n_beyond_the_machine_word", 0) + 1
        if out != ("val", vals[:n]):
            viol.append(("take_first-result", {"n": n, "expected": vals[:n], "observed": repr(out)[:200]}))
            continue
        need = ops_needed(ops, n) if n <= len(vals) else len(ops)
        if n <= len(vals) and ctx.executed != need:
            viol.append(("take_first-consumed-more-than-needed", {"n": n, "operations_executed": ctx.executed, "needed": need}))
            continue
        # repeated take_first continues where the previous one stopped
        if n <= len(vals):
            m = min(2, len(vals) - n + 1)
            out2 = ctx.norm(outcome(lambda: take_first(g, m)))
            c["repeated_take_first"] = c.get("repeated_take_first", 0) + 1
            want2 = vals[n : n + m] if m > 0 else []
            if out2 != ("val", want2):
                viol.append(("repeated-take_first", {"first_n": n, "second_n": m, "expected": want2, "observed": repr(out2)[:200]}))
    # must-compute guard
    ctx, gen = fresh()
    g = gen(ops)
    steps = 0
    guard_checked = False
    exhausted = False
    while steps < 400:
        steps += 1
        try:
            t = next(g)
        except StopIteration:
            exhausted = True
            break
        except BaseException as e:
            viol.append(("advance-raised", {"exc": exc_desc(e)}))
            break
        if not t.is_computed():
            # ... however the generator is advanced: by the helpers and a for loop (which ask it for an iterator) too
            from asynq.generator import list_of_generator as _log, take_first as _tf

            for how_, adv in (("take_first(gen, 1)", lambda: _tf(g, 1)), ("list_of_generator(gen)", lambda: _log(g)), ("for task in gen", lambda: [x for x in g])):
                if steps % 3 != ("take_first(gen, 1)", "list_of_generator(gen)", "for task in gen").index(how_):
                    continue
                try:
                    r_ = adv()
                    viol.append(("advance-before-previous-task-computed-did-not-raise", {"advanced_through": how_, "got": repr(r_)[:80]}))
                except RuntimeError:
                    c["guard_checks_through_helpers"] = c.get("guard_checks_through_helpers", 0) + 1
                except BaseException as e:
                    viol.append(("advance-before-previous-task-computed-did-not-raise", {"advanced_through": how_, "raised_instead": exc_desc(e)}))
            if viol:
                break
            for attempt in range(3):
                try:
                    t2 = next(g)
                    viol.append(("advance-before-previous-task-computed-did-not-raise", {"attempt": attempt + 1, "got": type(t2).__name__}))
                    break
                except RuntimeError:
                    guard_checked = True
                except StopIteration:
                    viol.append(("advance-before-previous-task-computed-raised-StopIteration", {"attempt": attempt + 1}))
                    break
                except BaseException as e:
                    viol.append(("advance-before-previous-task-computed-did-not-raise", {"attempt": attempt + 1, "raised_instead": exc_desc(e)}))
                    break
            if viol:
                break
        try:
            t.value()
        except BaseException as e:
            viol.append(("task-of-generator-failed", {"exc": exc_desc(e)}))
            break
    if guard_checked:
        c["guard_checks"] = c.get("guard_checks", 0) + 1
    if ctx.bad_resume is not None and not viol:
        viol.append(("generator-body-resumed-with-wrong-value", {"awaited": ctx.bad_resume[0], "received": ctx.bad_resume[1]}))
    # exhaustion
    if not viol and exhausted:
        for k in range(3):
            try:
                next(g)
                viol.append(("exhausted-generator-advanced-again", {"attempt": k + 1}))
                break
            except StopIteration:
                c["exhaustion_checks"] = c.get("exhaustion_checks", 0) + 1
            except BaseException as e:
                viol.append(("exhausted-generator-raised-other", {"exc": exc_desc(e)}))
                break
    return viol


def plan(tier, seed, build, scale):
    n = int((1600 if tier == "quick" else 100000) * scale)
    per = max(1, n // (8 if tier == "quick" else 64))
    units = []
    a = 0
    while a < n:
        units.append({"cases": [a, min(n, a + per)]})
        a += per
    units.append({"mode": "midstep", "cases": [0, 1]})
    return units


def run_midstep_guard(res, c, progress):
    """The task a generator handed out has STARTED and is suspended at a later await of its step (not computed yet):
    another task that tries to advance the generator at that moment gets RuntimeError, every time, and the body is not
    touched."""
    import asynq
    from asynq import asynq as A
    from asynq.batching import DebugBatchItem, _debug_batch_state
    from asynq.generator import END_OF_GENERATOR, Value, async_generator

    for awaits, rounds, with_value_first in itertools.product((2, 3, 5), (1, 2, 4), (False, True)):
        progress(awaits)
        asynq.scheduler.reset()
        _debug_batch_state.batches.clear()
        seen = []
        attempts = []

        @async_generator()
        def gen():
            if with_value_first:
                yield Value("first")
            for k in range(awaits):
                got = yield DebugBatchItem("c17g", ("a", k))
                seen.append(got)
            yield Value("after-%d-awaits" % awaits)
            yield Value("last")

        g = gen()
        if with_value_first:
            first = next(g)
            first.value()
        t = next(g)

        @A()
        def sibling():
            for r in range(rounds):
                yield DebugBatchItem("c17g", ("s", r))
                if t.is_computed():
                    break
                try:
                    next(g)
                    attempts.append("advanced")
                except RuntimeError:
                    attempts.append("RuntimeError")
                except BaseException as e:
                    attempts.append(type(e).__name__)

        @A()
        def driver():
            yield t, sibling.asynq()
            return t.value()

        try:
            out = ("val", driver())
        except BaseException as e:
            out = ("exc", exc_desc(e))
        rest = []
        try:
            for tk in g:
                v = tk.value()
                if v is not END_OF_GENERATOR:
                    rest.append(v)
        except BaseException as e:
            rest.append(("raised", exc_desc(e)))
        res["evaluations"] += 1
        c["advances_attempted_while_the_handed_out_task_was_suspended_mid_step"] = c.get("advances_attempted_while_the_handed_out_task_was_suspended_mid_step", 0) + len(attempts)
        want_seen = [("a", k) for k in range(awaits)]
        problem = None
        if any(a_ != "RuntimeError" for a_ in attempts):
            problem = {"attempts": attempts}
        elif out != ("val", "after-%d-awaits" % awaits) or rest != ["last"] or seen != want_seen:
            problem = {"step_task": repr(out)[:120], "remaining_values": repr(rest)[:120], "body_received": repr(seen)[:160], "expected_received": repr(want_seen)}
        if problem and len(res["violations"]) < 6:
            res["violations"].append(
                {
                    "oracle": "advance-before-previous-task-computed-did-not-raise",
                    "mechanism": "advance-before-previous-task-computed-did-not-raise/mid-step",
                    "detail": dict(problem, awaits_in_the_step=awaits, sibling_rounds=rounds, value_before_the_step=with_value_first),
                    "case": {"mode": "midstep", "cases": [0, 1]},
                }
            )
        res["nontrivial"].append(hash(("midstep", awaits, rounds, with_value_first)) & 0xFFFFFFFFFFFF)
    asynq.scheduler.reset()
    _debug_batch_state.batches.clear()
    return res


def run_unit(unit, progress):
    res = tl.new_result()
    c = res["counters"]
    if unit.get("mode") == "midstep":
        return run_midstep_guard(res, c, progress)
    a, b = unit["cases"]
    for i in range(a, b):
        progress(i)
        cs = tl.case_seed(unit["seed"], ID, i)
        rnd = random.Random(cs)
        ops = make_body(rnd)
        viol = check_body(ops, res, c)
        vals = values_of(ops)
        c["bodies"] = c.get("bodies", 0) + 1
        if ops and ops[-1][0] == "await" and vals:
            c["bodies_with_awaits_after_last_value"] = c.get("bodies_with_awaits_after_last_value", 0) + 1
        if not vals:
            c["bodies_without_values"] = c.get("bodies_without_values", 0) + 1
        if any(op[0] == "nested" for op in ops):
            c["bodies_with_nested_generator"] = c.get("bodies_with_nested_generator", 0) + 1
        if vals and any(op[0] == "await" for op in ops):
            res["nontrivial"].append(hash(repr(ops)) & 0xFFFFFFFFFFFF)
        for v in viol[:3]:
            if len(res["violations"]) < 8:
                mech = v[0]
                if v[0].startswith("take_first") and v[1].get("n") == 0:
                    mech = v[0] + "/n=0"
                res["violations"].append(
                    {"oracle": v[0], "mechanism": mech, "detail": {"violation": v[1], "body": ops}, "case": {"cases": [i, i + 1]}}
                )
        if len(res["samples"]) < 2 and len(vals) >= 2 and len(ops) <= 7:
            res["samples"].append({"body": ops, "values": vals})
    return res


def reach(c, tier):
    out = []
    for k in ("bodies_with_awaits_after_last_value", "bodies_without_values", "bodies_with_nested_generator", "take_first_n0", "take_first_n_beyond_len", "repeated_take_first", "guard_checks", "exhaustion_checks", "runs_with_future_payloads", "bodies_holding_a_context_across_steps", "take_first_n_beyond_the_machine_word"):
        if not c.get(k):
            out.append("%s is zero" % k)
    return out
