"""C19 - asynq.mock.patch replaces every calling convention and always restores."""
import asyncio
import sys
import types

from .. import tl
from ..lang import UserErr, exc_desc

ID = "C19"
LEVEL = "exploration"
RULE = (
    "the finite matrix target {module function, instance method, classmethod, staticmethod, plain attribute} x "
    "replacement {default mock, a strict default mock (spec_set=True: only entering and restoring are examined - a patch that cannot be entered must still leave the original in place), plain function, bound method, callable object, an explicitly passed Mock, new_callable=, non-callable, classmethod(f), staticmethod(f) - the last two on class attributes only} x "
    "activation {context manager, function decorator, class decorator (goes through patcher.copy()), start/stop} x exit path {normal, exception, stop(), stopall()} x "
    "composition {single, nested on the same target with a second replacement, nested with the SAME replacement object, sequential, the same patcher object activated a second time} x entry point {patch('mod.attr'), patch.object} is "
    "ENUMERATED COMPLETELY on a synthetic module registered in sys.modules. Class attributes are reached through the owner, a subclass, an instance of each and the owner again during the same patch. Inside the patch the sync call, "
    ".asynq().value(), yielding .asynq() from a task and asyncio.run(.asyncio()) must all reach the replacement with the "
    "same recorded arguments (ending with the given ones; exactly the given ones for non-descriptor replacements and staticmethod(f), the class reached through + the given ones for classmethod(f)) and return the same result; a non-callable replacement must be "
    "installed as is; after every exit path the owner's __dict__ entry IS the original object. "
    "distinct = cell; non-trivial = every cell with a callable replacement (4 conventions compared)."
)
RULE += (
    " Further targets: a method / classmethod / staticmethod patched on a subclass that only INHERITS it, and a "
    "method patched on one instance (restored = the name is absent from the owner's own __dict__ again, the "
    "defining class untouched). Further replacements: what new_callable produces when that is a plain "
    "function, a bound method, a callable object. A fifth convention: yield .asynq() from a task that is "
    "itself driven by asyncio. Composition 'nested_stopall': two patches of one target started with start(), "
    "ended by ONE stopall(). Replacement kind 'frozen_type' (a callable class that has a __dict__ but rejects "
    "attribute assignment, like builtin and extension types). A sixth convention: yield async_call.asynq(f) "
    "from a task driven by asyncio. Every second cell makes its replacements RETURN a future object "
    "(ConstFuture / lazy Future), which every convention must pass on untouched and uncomputed. Replacement "
    "kind asynq_fn (an @asynq() generator function given as new) is held to the statement's four conventions. "
    "Calls pass keywords named fn, mock_fn and args besides y. In sequential compositions of callable-object "
    "replacements the second fake is a copy.copy of the first. Replacement kind pair_fn: a hand-made "
    "@asynq(sync_fn=twin) pair over a generator body."
)
ASSUMPTIONS = ["unittest.mock itself is trusted"]
UNIT_TIMEOUT = {"quick": 200, "thorough": 600}

# sub_*: the attribute is patched on a class that only INHERITS it; inst_meth: on one instance (module attribute INST).
# In both the patched name is not in the owner's own __dict__ before the patch and must not be afterwards.
TARGETS = ["fn", "meth", "cmeth", "smeth", "const", "sub_meth", "sub_cmeth", "sub_smeth", "inst_meth"]
ABSENT = object()
REPLS = ["default", "function", "bound", "callable_obj", "explicit_mock", "new_callable", "noncallable", "classmethod_fn", "staticmethod_fn", "spec_set", "new_callable_fn", "new_callable_bound", "new_callable_obj", "frozen_type", "asynq_fn", "pair_fn"]
ACTS = ["with", "decorator", "classdeco", "startstop"]
EXITS = ["normal", "exception", "stopall"]
COMPS = ["single", "nested", "nested_same_replacement", "sequential", "same_patcher_again", "nested_stopall"]
ENTRIES = ["patch", "patch.object"]


def make_module():
    from asynq import asynq as A

    mod = types.ModuleType("c19_mod")

    @A()
    def fn(x, y=0):
        return ("orig-fn", x, y)

    class Cls(object):
        CONST = 5

        @A()
        def meth(self, x, y=0):
            return ("orig-meth", x, y)

        @A()
        @classmethod
        def cmeth(cls, x, y=0):
            return ("orig-cmeth", x, y)

        @A()
        @staticmethod
        def smeth(x, y=0):
            return ("orig-smeth", x, y)

    class Sub(Cls):
        pass

    mod.fn = fn
    mod.Cls = Cls
    mod.Sub = Sub
    mod.INST = Cls()
    sys.modules["c19_mod"] = mod
    return mod


def owner_and_name(mod, target):
    if target == "fn":
        return mod, "fn", "c19_mod.fn"
    if target.startswith("sub_"):
        return mod.Sub, target[4:], "c19_mod.Sub." + target[4:]
    if target == "inst_meth":
        return mod.INST, "meth", "c19_mod.INST.meth"
    name = {"meth": "meth", "cmeth": "cmeth", "smeth": "smeth", "const": "CONST"}[target]
    return mod.Cls, name, "c19_mod.Cls." + name


def accessor(mod, target):
    """[(label, getter, class through which the attribute is reached)]: class-level targets are reached
    through the owner, through a subclass and through the owner again during the same patch."""
    if target == "fn":
        return [("module", lambda: mod.fn, None)]
    if target == "sub_meth":
        sub = mod.Sub()
        return [("subclass instance", lambda: sub.meth, mod.Sub), ("subclass instance again", lambda: sub.meth, mod.Sub)]
    if target in ("sub_cmeth", "sub_smeth"):
        sub = mod.Sub()
        nm = target[4:]
        return [("subclass", lambda: getattr(mod.Sub, nm), mod.Sub), ("subclass instance", lambda: getattr(sub, nm), mod.Sub), ("subclass again", lambda: getattr(mod.Sub, nm), mod.Sub)]
    if target == "inst_meth":
        return [("the instance", lambda: mod.INST.meth, mod.Cls), ("the instance again", lambda: mod.INST.meth, mod.Cls)]
    if target == "meth":
        inst = mod.Cls()
        sub = mod.Sub()
        return [("instance", lambda: inst.meth, mod.Cls), ("subclass instance", lambda: sub.meth, mod.Sub), ("instance again", lambda: inst.meth, mod.Cls)]
    if target in ("cmeth", "smeth"):
        inst = mod.Cls()
        sub = mod.Sub()
        return [
            ("owner class", lambda: getattr(mod.Cls, target), mod.Cls),
            ("subclass", lambda: getattr(mod.Sub, target), mod.Sub),
            ("instance", lambda: getattr(inst, target), mod.Cls),
            ("subclass instance", lambda: getattr(sub, target), mod.Sub),
            ("owner class again", lambda: getattr(mod.Cls, target), mod.Cls),
        ]
    return [("owner class", lambda: mod.Cls.CONST, mod.Cls)]


RESULT_MODE = ["plain"]  # what replacements return in the current cell: a tuple, a ConstFuture, a lazy Future
_RESULTS = {}


def result_for(n):
    """The object a replacement hands back (one object per cell and arity, so that conventions can be compared by
    identity): under "constfuture" / "lazyfuture" the RESULT ITSELF is a future object, which every convention has to
    pass on untouched - and uncomputed."""
    mode = RESULT_MODE[0]
    if mode == "plain":
        return ("replaced", n)
    if mode == "raises":
        # the replacement fails: every convention has to deliver THIS failure
        raise UserErr(("replacement", n))
    key = (mode, n)
    if key not in _RESULTS:
        from asynq import ConstFuture, Future

        _RESULTS[key] = ConstFuture(("inner", n)) if mode == "constfuture" else Future(lambda: ("inner", n))
    return _RESULTS[key]


class Recorder(object):
    def __init__(self):
        self.calls = []

    def method(self, *args, **kwargs):
        self.calls.append((args, tuple(sorted(kwargs.items()))))
        return result_for(len(args))


class CallableObj(object):
    def __init__(self, rec):
        self.rec = rec

    def __call__(self, *args, **kwargs):
        self.rec.calls.append((args, tuple(sorted(kwargs.items()))))
        return result_for(len(args))


def make_replacement(kind, rec):
    """Returns (kwargs for patch, how to configure the entered object)."""
    from unittest import mock

    if kind == "default":
        return {}, "mock"
    if kind == "function":
        def new(*args, **kwargs):
            rec.calls.append((args, tuple(sorted(kwargs.items()))))
            return result_for(len(args))

        return {"new": new}, None
    if kind == "asynq_fn":
        # the replacement is itself an asynq function with a generator body (a fake that awaits other fakes)
        from asynq import asynq as A, ConstFuture

        @A()
        def new(*args, **kwargs):
            rec.calls.append((args, tuple(sorted(kwargs.items()))))
            yield ConstFuture(None)
            return result_for(len(args))

        return {"new": new}, None
    if kind == "pair_fn":
        # a hand-made pair: an asynq function (generator body) declared with a synchronous twin - every convention
        # answers through the twin, which is what records the call
        from asynq import asynq as A, ConstFuture

        def twin(*args, **kwargs):
            rec.calls.append((args, tuple(sorted(kwargs.items()))))
            return result_for(len(args))

        @A(sync_fn=twin)
        def new(*args, **kwargs):
            yield ConstFuture(None)
            return twin(*args, **kwargs)

        return {"new": new}, None
    if kind == "bound":
        return {"new": rec.method}, None
    if kind == "callable_obj":
        return {"new": CallableObj(rec)}, None
    if kind == "explicit_mock":
        return {"new": mock.MagicMock()}, "mock"
    if kind == "new_callable":
        return {"new_callable": mock.MagicMock}, "mock"
    if kind == "noncallable":
        return {"new": 42}, None
    if kind == "frozen_type":
        # a callable that HAS a __dict__ but refuses new attributes, like builtin and extension types (dict, list,
        # a compiled class) do - here a class whose metaclass rejects attribute assignment, so that calls can be recorded
        class Meta(type):
            def __setattr__(cls, name, value):
                raise TypeError("cannot set %r attribute of immutable type %r" % (name, cls.__name__))

            def __delattr__(cls, name):
                raise TypeError("cannot delete %r attribute of immutable type %r" % (name, cls.__name__))

        class Frozen(metaclass=Meta):
            def __new__(cls, *args, **kwargs):
                rec.calls.append((args, tuple(sorted(kwargs.items()))))
                return result_for(len(args))

        return {"new": Frozen}, None
    if kind == "new_callable_fn":
        # a factory whose product is a plain function / a bound method / a callable object
        def factory():
            def new(*args, **kwargs):
                rec.calls.append((args, tuple(sorted(kwargs.items()))))
                return result_for(len(args))

            return new

        return {"new_callable": factory}, None
    if kind == "new_callable_bound":
        return {"new_callable": lambda: rec.method}, None
    if kind == "new_callable_obj":
        return {"new_callable": lambda: CallableObj(rec)}, None
    if kind == "spec_set":
        # a strict default mock: whether or not such a patch can be entered, the target must be restored
        return {"spec_set": True}, "mock"
    if kind in ("classmethod_fn", "staticmethod_fn"):
        def new(*args, **kwargs):
            rec.calls.append((args, tuple(sorted(kwargs.items()))))
            return result_for(len(args))

        return {"new": (classmethod if kind == "classmethod_fn" else staticmethod)(new)}, None
    raise AssertionError(kind)


def outcome(fn):
    try:
        return ("val", fn())
    except BaseException as e:
        return ("exc", exc_desc(e))


def check_inside(gets, entered, rec, repl, target, viol):
    n = 0
    for label, get, via in gets:
        k = len(viol)
        n += check_inside_one(get, entered, rec, repl, target, viol, via)
        for v in viol[k:]:
            v[1]["reached_through"] = label
        if len(viol) > k:
            break
    return n


def check_inside_one(get, entered, rec, repl, target, viol, via):
    """All four conventions reach the replacement and agree."""
    from asynq import asynq as A

    if repl == "noncallable":
        if get() != 42:
            viol.append(("noncallable-not-installed-as-is", {"observed": repr(get())[:80]}))
        return 0
    cur = get()
    if entered is not None and repl in ("default", "new_callable", "explicit_mock"):
        if RESULT_MODE[0] == "raises":
            entered.side_effect = UserErr(("replacement", "mock"))
        else:
            entered.return_value = result_for("mock")

    @A()
    def yielder(f, a, k):
        v = yield f.asynq(*a, **k)
        return v

    @A()
    def ac_yielder(f, a, k):
        from asynq import async_call

        v = yield async_call.asynq(f, *a, **k)
        return v

    # (keyword names a wrapper might use for its own parameters are legal argument names too)
    given = ((3,), {"y": 4, "fn": 5, "mock_fn": 6, "args": 7})
    results = []
    recorded = []

    def calls_so_far():
        if repl in ("default", "new_callable", "explicit_mock"):
            return [(tuple(c.args), tuple(sorted(c.kwargs.items()))) for c in entered.call_args_list]
        return list(rec.calls)

    convs = [
        ("sync call", lambda: get()(*given[0], **given[1])),
        (".asynq().value()", lambda: get().asynq(*given[0], **given[1]).value()),
        ("yield .asynq()", lambda: yielder(get(), given[0], given[1])),
        ("asyncio.run(.asyncio())", lambda: asyncio.run(get().asyncio(*given[0], **given[1]))),
        # convention 3 inside convention 4: the task that yields .asynq() is itself driven by an event loop
        ("yield .asynq() from a task run by asyncio", lambda: asyncio.run(yielder.asyncio(get(), given[0], given[1]))),
        # ... and the same through async_call, which awaits the target's .asyncio() inside asyncio mode
        ("yield async_call.asynq() from a task run by asyncio", lambda: asyncio.run(ac_yielder.asyncio(get(), given[0], {k_: v_ for k_, v_ in given[1].items() if k_ != "fn"}))),
    ]
    if repl == "asynq_fn":
        # an asynq function given as replacement is not one of the statement's replacement kinds; it is held to the
        # statement's four conventions only (reached from a task that an event loop drives, its synchronous call
        # is refused - DESIGN.md 9.5, triage)
        convs = convs[:4]
    for name, fn in convs:
        before = len(calls_so_far())
        out = outcome(fn)
        after = calls_so_far()
        results.append((name, out))
        new_calls = after[before:]
        recorded.append((name, new_calls))
        if len(new_calls) != 1:
            viol.append(("convention-did-not-reach-replacement-once", {"convention": name, "calls": len(new_calls), "outcome": repr(out)[:120]}))
            return len(convs)
        args, kw = new_calls[0]
        exp_kw = dict(given[1])
        if "async_call" in name:
            exp_kw.pop("fn")  # async_call(fn, *args, **kwargs) has a parameter of that name itself
        if args[-1:] != (3,) or dict(kw) != exp_kw:
            viol.append(("replacement-got-wrong-arguments", {"convention": name, "recorded": repr(new_calls[0])[:120]}))
            return len(convs)
        want = None
        if repl == "classmethod_fn":
            want = (via, 3)  # a classmethod replacement is bound to the class it is reached through
        elif repl in ("staticmethod_fn", "bound", "callable_obj", "new_callable_bound", "new_callable_obj", "frozen_type"):
            want = (3,)
        if want is not None and args != want:
            viol.append(("replacement-got-wrong-arguments", {"convention": name, "recorded": repr(new_calls[0])[:120], "expected_positional": repr(want)[:80]}))
            return len(convs)
    nofn = lambda call: (call[0], tuple(kv for kv in call[1] if kv[0] != "fn"))
    first = recorded[0][1][0]
    for name, calls in recorded[1:]:
        if nofn(calls[0]) != nofn(first):
            viol.append(("conventions-reach-replacement-with-different-arguments", {"sync call": repr(first)[:120], name: repr(calls[0])[:120]}))
            break
    r0 = results[0][1]
    for name, out in results[1:]:
        if out != r0:
            viol.append(("conventions-disagree-on-result", {"sync call": repr(r0)[:100], name: repr(out)[:100]}))
            break
    if RESULT_MODE[0] == "raises":
        if r0[0] != "exc" or r0[1][0] != "UserErr" or r0[1][1][0] != "replacement":
            viol.append(("failure-of-the-replacement-not-delivered", {"outcome": repr(r0)[:160]}))
    elif r0[0] != "val":
        viol.append(("patched-call-raised", {"outcome": repr(r0)[:160]}))
    return len(convs)


def run_cell(target, repl, act, exit_path, comp, entry, result_mode="plain"):
    RESULT_MODE[0] = result_mode
    _RESULTS.clear()
    try:
        viol, n = _run_cell(target, repl, act, exit_path, comp, entry)
        if result_mode == "lazyfuture":
            for key, fut in _RESULTS.items():
                if fut.is_computed():
                    viol.append(("future-returned-by-the-replacement-was-computed-behind-the-callers-back", {"arity": key[1]}))
                    break
        return viol, n
    finally:
        RESULT_MODE[0] = "plain"
        _RESULTS.clear()


def _run_cell(target, repl, act, exit_path, comp, entry):
    import asynq
    from asynq import mock as amock

    asynq.scheduler.reset()
    mod = make_module()
    owner, name, dotted = owner_and_name(mod, target)
    original = owner.__dict__.get(name, ABSENT)
    defining = mod.Cls if (target.startswith("sub_") or target == "inst_meth") else None
    def_original = defining.__dict__[name] if defining is not None else None
    get = accessor(mod, target)
    viol = []
    nconv = [0]

    def restored():
        if owner.__dict__.get(name, ABSENT) is not original:
            return False
        return defining is None or defining.__dict__[name] is def_original

    shared_kw = {}
    entry_ok = []
    entry_failed = []

    def mk(rec, same_as_outer=False):
        if same_as_outer and "kw" in shared_kw:
            kw = shared_kw["kw"]  # the very same replacement object as the enclosing patch
        else:
            kw, _ = make_replacement(repl, rec)
            shared_kw.setdefault("kw", kw)
        p = amock.patch(dotted, **kw) if entry == "patch" else amock.patch.object(owner, name, **kw)
        p._c19_new = kw.get("new")
        return p

    def use(p, rec, depth=0):
        """Activate patcher p, check inside, leave through exit_path. Returns nothing; appends violations."""
        given_new = getattr(p, "_c19_new", None)
        if repl == "spec_set":
            # only entry and restoration are examined for this one
            try:
                if act == "with":
                    with p:
                        entry_ok.append(1)
                elif act in ("decorator", "classdeco"):
                    if act == "decorator":
                        p(lambda *a: entry_ok.append(1))()
                    else:
                        T = p(type("T", (object,), {"test_it": lambda self, *a: entry_ok.append(1)}))
                        T().test_it()
                else:
                    p.start()
                    entry_ok.append(1)
                    p.stop()
            except BaseException as e:
                entry_failed.append(exc_desc(e))
            return
        if act == "with":
            try:
                with p as entered:
                    nconv[0] += check_inside(get, entered, rec, repl, target, viol)
                    if comp in ("nested", "nested_same_replacement") and depth == 0:
                        same = comp == "nested_same_replacement"
                        rec2 = rec if same else Recorder()
                        use(mk(rec2, same), rec2, 1)
                        # back in the outer patch: still the outer replacement
                        nconv[0] += check_inside(get, entered, rec, repl, target, viol)
                    if exit_path == "exception":
                        raise UserErr(("leave",))
            except UserErr:
                pass
        elif act in ("decorator", "classdeco"):
            def body(*margs):
                if act == "classdeco":
                    margs = margs[1:]  # self
                entered = margs[0] if margs else None
                if repl == "explicit_mock":
                    entered = given_new  # with an explicit `new` the decorator passes nothing
                if repl in ("default", "new_callable") and entered is None:
                    viol.append(("decorator-did-not-pass-the-mock", {}))
                    return
                nconv[0] += check_inside(get, entered, rec, repl, target, viol)
                if comp in ("nested", "nested_same_replacement") and depth == 0:
                    same = comp == "nested_same_replacement"
                    rec2 = rec if same else Recorder()
                    use(mk(rec2, same), rec2, 1)
                    nconv[0] += check_inside(get, entered, rec, repl, target, viol)
                if exit_path == "exception":
                    raise UserErr(("leave",))
                return "returned"

            try:
                if act == "decorator":
                    p(body)()
                else:
                    # class decoration patches every test_* method through patcher.copy()
                    T = p(type("T", (object,), {"test_it": body}))
                    T().test_it()
            except UserErr:
                pass
        else:
            entered = p.start()
            try:
                nconv[0] += check_inside(get, entered, rec, repl, target, viol)
                if comp in ("nested", "nested_same_replacement") and depth == 0:
                    same = comp == "nested_same_replacement"
                    rec2 = rec if same else Recorder()
                    use(mk(rec2, same), rec2, 1)
                    nconv[0] += check_inside(get, entered, rec, repl, target, viol)
                if comp == "nested_stopall" and depth == 0:
                    # a second patch of the same target is started inside the first; ONE stopall() ends both
                    rec2 = Recorder()
                    entered2 = mk(rec2).start()
                    nconv[0] += check_inside(get, entered2, rec2, repl, target, viol)
                if exit_path == "exception":
                    raise UserErr(("leave",))
            except UserErr:
                pass
            finally:
                if exit_path == "stopall" and depth == 0:
                    # (an inner, nested patch is stopped on its own: stopall() would also end the outer one)
                    amock.patch.stopall()
                else:
                    p.stop()

    try:
        rec = Recorder()
        try:
            p = mk(rec)
        except BaseException as e:
            viol.append(("patch-construction-raised", {"exc": exc_desc(e)}))
            p = None
        if p is not None:
            use(p, rec)
            if not restored():
                viol.append(("original-not-restored", {"after": exit_path, "activation": act, "composition": comp}))
            if comp == "same_patcher_again":
                # the very same patcher object is activated a second time (start/stop/start, a decorated function
                # called twice, one patch object in two with-blocks)
                use(p, rec)
                if not restored():
                    viol.append(("original-not-restored", {"after": exit_path + " (second activation of the same patcher)", "activation": act}))
            if comp == "sequential":
                rec3 = Recorder()
                first_new = getattr(p, "_c19_new", None)
                if repl == "callable_obj" and first_new is not None:
                    # the second fake is DERIVED from the first one (a copy of the object that served as replacement
                    # a moment ago, reporting to another recorder): whatever the first patch left on it, every
                    # convention has to reach the copy
                    import copy

                    derived = copy.copy(first_new)
                    derived.rec = rec3
                    p3 = amock.patch(dotted, new=derived) if entry == "patch" else amock.patch.object(owner, name, new=derived)
                    p3._c19_new = derived
                else:
                    p3 = mk(rec3)
                use(p3, rec3)
                if not restored():
                    viol.append(("original-not-restored", {"after": exit_path + " (second, sequential patch)", "activation": act}))
    except BaseException as e:
        viol.append(("cell-crashed", {"exc": exc_desc(e)}))
    finally:
        try:
            amock.patch.stopall()
        except BaseException:
            pass
        sys.modules.pop("c19_mod", None)
    return viol, nconv[0]


def cells():
    out = []
    for t in TARGETS:
        for r in REPLS:
            for a in ACTS:
                for e in EXITS:
                    if e == "stopall" and a != "startstop":
                        continue
                    for comp in COMPS:
                        if comp == "nested_same_replacement" and r in ("default", "new_callable", "spec_set", "new_callable_fn", "new_callable_bound", "new_callable_obj"):
                            continue  # those create a fresh mock per patch; nothing to share
                        if r == "spec_set" and comp in ("nested", "nested_stopall"):
                            continue
                        if comp == "nested_stopall" and not (a == "startstop" and e == "stopall"):
                            continue
                        if r in ("classmethod_fn", "staticmethod_fn") and t in ("fn", "const", "inst_meth"):
                            continue  # descriptors are only meaningful as class attributes
                        for entry in ENTRIES:
                            out.append((t, r, a, e, comp, entry))
    return out


def plan(tier, seed, build, scale):
    allc = cells()
    n = len(allc)
    k = 8
    per = (n + k - 1) // k
    return [{"cases": [a, min(n, a + per)]} for a in range(0, n, per)]


def run_unit(unit, progress):
    res = tl.new_result()
    c = res["counters"]
    allc = cells()
    a, b = unit["cases"]
    for i in range(a, b):
        progress(i)
        t, r, act, e, comp, entry = allc[i]
        rmode = ["plain", "constfuture", "raises", "lazyfuture", "plain", "raises"][i % 6]
        viol, nconv = run_cell(t, r, act, e, comp, entry, rmode)
        c["cells_result_" + rmode] = c.get("cells_result_" + rmode, 0) + 1
        res["evaluations"] += max(1, nconv)
        c["cells"] = c.get("cells", 0) + 1
        c["cells_target_" + t] = c.get("cells_target_" + t, 0) + 1
        c["cells_exit_" + e] = c.get("cells_exit_" + e, 0) + 1
        c["cells_repl_" + r] = c.get("cells_repl_" + r, 0) + 1
        c["cells_act_" + act] = c.get("cells_act_" + act, 0) + 1
        c["conventions_compared"] = c.get("conventions_compared", 0) + nconv
        if r != "noncallable":
            res["nontrivial"].append(hash(allc[i]) & 0xFFFFFFFFFFFF)
        for v in viol[:2]:
            if len(res["violations"]) < 12:
                res["violations"].append(
                    {
                        "oracle": v[0],
                        "mechanism": "%s/%s/%s" % (v[0], r, t),
                        "detail": {"target": t, "replacement": r, "activation": act, "exit": e, "composition": comp, "entry": entry, "violation": v[1]},
                        "case": {"cases": [i, i + 1]},
                    }
                )
        if len(res["samples"]) < 2 and i % 101 == 0:
            res["samples"].append({"target": t, "replacement": r, "activation": act, "exit": e, "composition": comp, "entry": entry})
    return res


def reach(c, tier):
    out = []
    for k in ["cells_target_" + t for t in TARGETS] + ["cells_exit_" + e for e in EXITS] + ["cells_repl_" + r for r in REPLS] + ["cells_act_" + a for a in ACTS] + ["conventions_compared"]:
        if not c.get(k):
            out.append("%s is zero" % k)
    return out


def extra_coverage(c, tier):
    return {"exhaustive": True, "cells_in_matrix": len(cells())}
