"""C12 - deduplicate: one in-flight execution per key, shared by all callers."""
import itertools
import random
import threading

from .. import tl
from ..lang import UserErr, exc_desc

ID = "C12"
LEVEL = "exploration"
RULE = (
    "seeded call histories: 2-6 concurrently pending actor tasks each run a script of {call f.asynq(...) in one of "
    "several spellings (positional / keyword / defaults / keyword-only), await one or several earlier calls (same yield "
    "or later), let a flush pass, dirty(key)} against deduplicated plain functions, methods on two instances and a "
    "static method, a deduplicated async_proxy forwarding to another function with different arguments, two same-named functions made by one factory (equal module and __qualname__, different objects) and methods of two same-named classes whose instances compare equal, over 2-3 keys (in 40% of the histories different keys with EQUAL hashes: -1/-2, 0/2**61-1); bodies block on one or two batch flushes, succeed or raise, and optionally re-enter "
    "their own key synchronously - at the start of the body or from an except handler after an awaited task failed; after the actors, deduplicated async_proxy functions whose result is not a task (a finished ConstFuture: every call runs the proxy again; a pending batch item: shared while in flight, fresh afterwards). Several get_priority() policies, both builds. Model: key -> in-flight task (created, "
    "not complete, not dirtied), maintained from the returned objects and their on_computed events. Oracles: a call from "
    "outside the running body returns the model's task (identity) or, if none, a task that is not already computed and "
    "was never handed out for another key; body executions per created-and-awaited task = 1 (keyed by "
    "get_active_task()); all awaiters of one task receive the identical value / exception object; every call - also one issued from inside the running body, in a seeded spelling - is answered with the body's outcome for the requested function and arguments. "
    "Besides, 200 (thorough 3000) threads run strictly one after another, each leaving an unfinished task for the same key behind: a later thread (often with the same OS thread identifier) must get a task of its own. distinct = script hash; non-trivial = some call arrived while the first was in flight and blocked."
)
RULE += (
    " Further configurations per key: the body calls dirty() for its OWN key before it blocks (whoever asks "
    "afterwards gets a new execution); the body yields its item together with a task it created, which asks "
    "for the same call - at once or after a flush - while the body is suspended and must be handed the "
    "in-flight task. A separate unit applies ONE deduplicate() object to four functions with different "
    "signatures in all 24 decoration orders: equivalent spellings share a task, look-alike different calls do "
    "not. One unit uses deduplicated functions without named parameters (def f(*ids), def f(**opts)): the "
    "arguments still are the key, dirty() of another key changes nothing. Another unit repeats a call (two "
    "spellings, function / method) after the thread's scheduler was replaced once or twice by "
    "scheduler.reset(): same thread, same key, same task. Re-entry from an except handler follows either a "
    "failed task or a future failed by hand (an error object that was never raised)."
)
ASSUMPTIONS = [
    "calls issued while the in-flight task's own step is on the Python stack are unconstrained by the statement and leave the model unchanged",
    "the process-wide task map is cleared between cases so id() reuse cannot confuse the model",
]
UNIT_TIMEOUT = {"quick": 200, "thorough": 2400}

W = None  # current world (one per case; single-threaded workers)


class World(object):
    def __init__(self, cfg, rt):
        self.cfg = cfg
        self.rt = rt
        self.exec_ids = itertools.count()
        self.exec_by_task = {}
        self.running = []
        self.inflight = {}
        self.owner = {}
        self.keep = []
        self.viol = []
        self.calls_inflight_blocked = 0
        self.calls_total = 0
        self.calls_unconstrained = 0
        self.shared_hits = 0
        self.after_completion = 0
        self.after_dirty = 0
        self.dirtied = set()
        self.item_ctr = itertools.count()
        self.created = []  # tasks the model considers freshly created
        self.proxy_runs = []
        self.answers_checked = 0
        self.reentries_from_handler = 0
        self.reentries_after_a_handmade_error = 0
        self.proxy_checks = 0
        self.dirty_from_own_body = 0
        self.asked_by_descendants = 0


def body(fn, key):
    import asynq
    from .. import harness

    w = W
    mk = (fn, key)
    eid = next(w.exec_ids)
    t = asynq.scheduler.get_active_task()
    w.exec_by_task[id(t)] = w.exec_by_task.get(id(t), 0) + 1
    w.keep.append(t)
    nested = mk in w.running
    w.running.append(mk)
    try:
        c = w.cfg.get(repr(mk), {})
        if c.get("reenter") and not nested:
            reenter_helper(fn, key)
        if c.get("reenter_in_handler") and not nested:
            # the same request, issued from an except handler after an awaited task failed
            w.running.pop()
            try:
                try:
                    if c.get("reenter_in_handler") == 2:
                        # ... after a future that was failed by hand: its error object was never raised anywhere
                        from asynq.futures import ErrorFuture

                        w.reentries_after_a_handmade_error += 1
                        yield ErrorFuture(UserErr(("handmade", fn, key)))
                    else:
                        yield fns()["failing"].asynq()
                finally:
                    w.running.append(mk)
            except UserErr:
                w.reentries_from_handler += 1
                reenter_helper(fn, key)
        if c.get("dirty_self") and not nested:
            # the body invalidates its own key before it blocks: whoever asks afterwards gets a new execution
            w.dirty_from_own_body += 1
            do_dirty(fn, key, c.get("reenter_spelling", 0))
        for i in range(c.get("blocks", 1)):
            w.running.pop()
            try:
                it = harness.HItem(w.rt, i % 2, "d%d" % next(w.item_ctr), ("dd", eid, i))
                if i == 0 and c.get("child_asks") and not nested:
                    yield it, fns()["asker"].asynq(fn, key, c.get("reenter_spelling", 0), c.get("child_asks") == 2)
                else:
                    yield it
            finally:
                w.running.append(mk)
        if c.get("fail"):
            raise UserErr(("dedup", fn, key, eid))
        return ("res", fn, key, eid)
    finally:
        w.running.pop()


_fns = {}


def fns():
    if _fns:
        return _fns
    from asynq import asynq as A
    from asynq.tools import deduplicate

    @deduplicate()
    @A()
    def f(a, b=0, *, c=1):
        return (yield from body("f", (a, b, c)))

    @deduplicate()
    @A()
    def g(a, b=0, *, c=1):
        return (yield from body("g", (a, b, c)))

    class K(object):
        def __init__(self, name):
            self.name = name

        @deduplicate()
        @A()
        def m(self, a, b=0, *, c=1):
            return (yield from body("m:" + self.name, (a, b, c)))

        @deduplicate()
        @A()
        @staticmethod
        def s(a, b=0, *, c=1):
            return (yield from body("s", (a, b, c)))

    @A()
    def helper(fn, key):
        # a request for the body's own key, issued from inside the running body in a seeded spelling
        sp = W.cfg.get(repr((fn, key)), {}).get("reenter_spelling", 0)
        v = yield do_call(fn, key, sp)
        check_answer(W, fn, key, ("val", v), "re-entrant")
        return v

    # deduplicate over async_proxy: the deduplicated "body" is a task of ANOTHER function with other arguments
    @A()
    def px_inner(packed):
        return (yield from body("px", packed))

    from asynq import async_proxy

    @deduplicate()
    @async_proxy()
    def px(a, b=0, *, c=1):
        return px_inner.asynq((a, b, c))

    @A()
    def failing():
        yield None
        raise UserErr(("planned",))

    @A()
    def asker(fn, key, sp, late):
        # a task CREATED by a deduplicated body, running while that body is suspended: it asks for the very call
        # that created it. It is outside the running body, so it must be handed the in-flight task (it does not
        # await it - that would be a cycle)
        if late:
            yield harness.HItem(W.rt, 1, "ask%d" % next(W.item_ctr), ("ask", fn))
        W.asked_by_descendants += 1
        do_call(fn, key, sp)
        return 1

    _fns["asker"] = asker

    # deduplicated proxies that hand back futures which are not tasks: a finished ConstFuture, a batch item
    from asynq import ConstFuture
    from .. import harness

    @deduplicate()
    @async_proxy()
    def pxc(a, b=0, *, c=1):
        W.proxy_runs.append(("pxc", (a, b, c)))
        return ConstFuture(("res", "pxc", (a, b, c), len(W.proxy_runs)))

    @deduplicate()
    @async_proxy()
    def pxi(a, b=0, *, c=1):
        W.proxy_runs.append(("pxi", (a, b, c)))
        return harness.HItem(W.rt, 0, "pxi%d" % len(W.proxy_runs), ("pxi", (a, b, c), len(W.proxy_runs)))

    def make_twin(tag):
        # different function objects with the same module, name and qualified name
        @deduplicate()
        @A()
        def twin(a, b=0, *, c=1):
            return (yield from body(tag, (a, b, c)))

        return twin

    def make_cls(tag):
        # ... and the same for a class body evaluated twice
        class P(object):
            @deduplicate()
            @A()
            def m(self, a, b=0, *, c=1):
                return (yield from body(tag, (a, b, c)))

            def __eq__(self, other):
                return isinstance(other, P) or type(other).__name__ == "P"

            def __hash__(self):
                return 7

        return P

    _fns.update(f=f, g=g, K=K, o1=K("o1"), o2=K("o2"), helper=helper, t1=make_twin("t1"), t2=make_twin("t2"), px=px, pxc=pxc, pxi=pxi, failing=failing, p1=make_cls("p:1")(), p2=make_cls("p:2")())
    return _fns


def reenter_helper(fn, key):
    try:
        fns()["helper"](fn, key)
    except UserErr as e:
        check_answer(W, fn, key, ("exc", e), "re-entrant")


def check_answer(w, fn, key, got, where):
    """Whatever task a call was given, its outcome is the body's outcome for the REQUESTED function and arguments."""
    w.answers_checked += 1
    payload = got[1].args[0] if got[0] == "exc" and got[1].args else got[1]
    ok = isinstance(payload, tuple) and len(payload) == 4 and payload[0] == ("dedup" if got[0] == "exc" else "res") and payload[1] == fn and payload[2] == key
    if ok and any(type(x) is not type(y) for x, y in zip(payload[2], key)):
        ok = False
    if not ok:
        w.viol.append(("call-answered-for-other-function-or-arguments", {"requested": (fn, key), "where": where, "received": repr(got)[:160]}))


def target(fn):
    F = fns()
    if fn == "f":
        return F["f"]
    if fn == "g":
        return F["g"]
    if fn == "m:o1":
        return F["o1"].m
    if fn == "m:o2":
        return F["o2"].m
    if fn == "s":
        return F["K"].s if True else None
    if fn in ("t1", "t2", "px"):
        return F[fn]
    if fn == "p:1":
        return F["p1"].m
    if fn == "p:2":
        return F["p2"].m
    raise AssertionError(fn)


def spell(key, spelling):
    a, b, c = key
    s = spelling % 6
    if s == 0:
        args, kw = (a, b), {"c": c}
    elif s == 1:
        args, kw = (a,), {"b": b, "c": c}
    elif s == 2:
        args, kw = (), {"a": a, "b": b, "c": c}
    elif s == 3:
        args, kw = (), {"c": c, "b": b, "a": a}
    elif s == 4:
        args, kw = (a, b), {"c": c}
    else:
        args, kw = (a,), {"c": c, "b": b}
    # use defaults when they apply
    if b == 0 and s in (0, 4):
        args = (a,)
    if b == 0 and s in (1, 5):
        kw.pop("b")
    if c == 1 and s % 2 == 0:
        kw.pop("c", None)
    return args, kw


def invoke(fn, key, spelling):
    args, kw = spell(key, spelling)
    return target(fn).asynq(*args, **kw)


def do_call(fn, key, spelling):
    w = W
    mk = (fn, key)
    real = invoke(fn, key, spelling)
    w.keep.append(real)
    w.calls_total += 1
    if mk in w.running:
        w.calls_unconstrained += 1
        return real
    cur = w.inflight.get(mk)
    if cur is not None:
        w.shared_hits += 1
        if not cur.is_computed() and cur._dependencies:
            w.calls_inflight_blocked += 1
        if real is not cur:
            w.viol.append(
                (
                    "in-flight-task-not-shared",
                    {"fn": fn, "key": key, "spelling": spelling, "earlier_task_computed": cur.is_computed(), "returned_task_computed": real.is_computed()},
                )
            )
            # resynchronise the model on what the library handed out
            _register(w, mk, real)
        return real
    # no in-flight task for this key: must be a fresh task
    if real.is_computed():
        w.viol.append(("completed-task-returned-for-new-call", {"fn": fn, "key": key}))
    o = w.owner.get(id(real))
    if o is not None and o != mk:
        w.viol.append(("task-shared-across-keys", {"call": mk, "task_belongs_to": o}))
    elif o == mk and real in w.created:
        w.viol.append(("old-task-returned-after-completion-or-dirty", {"fn": fn, "key": key, "computed": real.is_computed()}))
    if mk in w.dirtied:
        w.after_dirty += 1
        w.dirtied.discard(mk)
    _register(w, mk, real)
    return real


def _register(w, mk, real):
    w.inflight[mk] = real
    w.owner[id(real)] = mk
    w.created.append(real)

    def done(t, mk=mk):
        if w.inflight.get(mk) is t:
            del w.inflight[mk]
            w.after_completion += 1

    real.on_computed.subscribe(done)


def do_dirty(fn, key, spelling):
    w = W
    args, kw = spell(key, spelling)
    target(fn).dirty(*args, **kw)
    mk = (fn, key)
    if mk in w.inflight:
        del w.inflight[mk]
        w.dirtied.add(mk)


def make_script(rnd):
    fnames = rnd.sample(["f", "g", "m:o1", "m:o2", "s", "t1", "t2", "p:1", "p:2", "px"], rnd.randint(1, 3))
    if rnd.random() < 0.25:
        fnames = rnd.choice([["t1", "t2"], ["p:1", "p:2"], ["t1", "t2", "f"]])
    pool = [(1, 0, 1), (1, 2, 1), (2, 0, 1), (1, 0, 5), (3, 4, 5)]
    if rnd.random() < 0.4:
        # different keys whose hashes are EQUAL (hash(-1) == hash(-2), hash(0) == hash(2**61 - 1))
        pool = rnd.choice([[(-1, 0, 1), (-2, 0, 1), (1, 0, 1)], [(0, 0, 1), (2 ** 61 - 1, 0, 1)], [(1, -1, 1), (1, -2, 1), (-1, -2, 1), (-2, -1, 1)]])
    keys = rnd.sample(pool, rnd.randint(min(2, len(pool)), min(3, len(pool))))
    cfg = {}
    for fn in fnames:
        for k in keys:
            cfg[repr((fn, k))] = {"blocks": rnd.choice([1, 1, 2, 3]), "fail": rnd.random() < 0.25, "reenter": rnd.random() < 0.2, "reenter_spelling": rnd.randrange(6), "reenter_in_handler": rnd.choice([1, 2]) if rnd.random() < 0.16 else 0, "dirty_self": rnd.random() < 0.12, "child_asks": rnd.choice([0, 0, 0, 0, 0, 1, 2])}
    actors = []
    for a in range(rnd.randint(2, 6)):
        script = []
        ncalls = 0
        for _ in range(rnd.randint(2, 7)):
            r = rnd.random()
            if r < 0.45 or ncalls == 0:
                script.append(["call", rnd.choice(fnames), list(rnd.choice(keys)), rnd.randrange(6)])
                ncalls += 1
            elif r < 0.75:
                n = rnd.randint(1, min(3, ncalls))
                script.append(["await", sorted(rnd.sample(range(ncalls), n))])
            elif r < 0.9:
                script.append(["wait"])
            else:
                script.append(["dirty", rnd.choice(fnames), list(rnd.choice(keys)), rnd.randrange(6)])
        script.append(["await", list(range(ncalls))])
        actors.append(script)
    return {"cfg": cfg, "actors": actors}


def run_script(sc, prio, seed):
    global W
    import asynq
    from asynq import asynq as A
    from asynq.tools import DeduplicateDecorator
    from .. import harness

    asynq.scheduler.reset()
    DeduplicateDecorator.tasks.clear()
    rt = harness.HarnessRT({"nodes": [], "kinds": 2}, prio=prio, seed=seed)
    w = World(sc["cfg"], rt)
    W = w
    fns()
    received = {}  # id(task) -> list of received objects

    @A()
    def actor(script):
        calls = []
        what = []
        for st in script:
            if st[0] == "call":
                calls.append(do_call(st[1], tuple(st[2]), st[3]))
                what.append((st[1], tuple(st[2])))
            elif st[0] == "dirty":
                do_dirty(st[1], tuple(st[2]), st[3])
            elif st[0] == "wait":
                yield harness.HItem(rt, 1, "w%d" % next(w.item_ctr), ("wait", next(w.item_ctr)))
            elif st[0] == "await":
                ts = [calls[i] for i in st[1]]
                for i, t in zip(st[1], ts):
                    try:
                        v = yield t
                        received.setdefault(id(t), []).append(("val", v))
                        check_answer(w, what[i][0], what[i][1], ("val", v), "actor")
                    except UserErr as e:
                        received.setdefault(id(t), []).append(("exc", e))
                        check_answer(w, what[i][0], what[i][1], ("exc", e), "actor")
                # and once more, all together in one yield
                try:
                    yield ts
                except UserErr:
                    pass
        return len(calls)

    @A()
    def proxy_part():
        """Deduplicated proxies whose result is not a task."""
        F = fns()
        for key in sorted(set(tuple(k) for a in sc["actors"] for st in a if st[0] in ("call", "dirty") for k in [st[2]]))[:2]:
            for sp in (0, 2):
                args, kw = spell(key, sp)
                n0 = len(w.proxy_runs)
                # a finished future: nothing is in flight, every call runs the proxy again
                f1 = F["pxc"].asynq(*args, **kw)
                v1 = yield f1
                f2 = F["pxc"].asynq(*args, **kw)
                v2 = yield f2
                w.proxy_checks += 1
                if not (isinstance(v1, tuple) and v1[:3] == ("res", "pxc", key) and isinstance(v2, tuple) and v2[:3] == ("res", "pxc", key)):
                    w.viol.append(("deduplicated-proxy-answer", {"proxy": "returns ConstFuture", "key": key, "values": repr((v1, v2))[:160]}))
                elif len(w.proxy_runs) - n0 != 2:
                    w.viol.append(("deduplicated-proxy-executions", {"proxy": "returns ConstFuture", "key": key, "executions": len(w.proxy_runs) - n0, "expected": 2}))
                # a pending batch item: shared while in flight, fresh afterwards
                n0 = len(w.proxy_runs)
                i1 = F["pxi"].asynq(*args, **kw)
                i2 = F["pxi"].asynq(*args, **kw)
                if i2 is not i1:
                    w.viol.append(("in-flight-task-not-shared", {"proxy": "returns a batch item", "key": key}))
                a1, a2 = yield i1, i2
                i3 = F["pxi"].asynq(*args, **kw)
                if i3 is i1 or i3.is_computed():
                    w.viol.append(("completed-task-returned-for-new-call", {"proxy": "returns a batch item", "key": key}))
                a3 = yield i3
                w.proxy_checks += 1
                if len(w.proxy_runs) - n0 != 2:
                    w.viol.append(("deduplicated-proxy-executions", {"proxy": "returns a batch item", "key": key, "executions": len(w.proxy_runs) - n0, "expected": 2}))

    @A()
    def root():
        yield [actor.asynq(s) for s in sc["actors"]]
        yield proxy_part.asynq()

    rt.attach()
    try:
        root()
        crashed = None
    except BaseException as e:
        crashed = e
    finally:
        rt.detach()
    viol = list(w.viol)
    if crashed is not None:
        viol.append(("history-crashed", exc_desc(crashed)))
    # body executions per created task that was awaited
    for t in w.created:
        n = w.exec_by_task.get(id(t), 0)
        if id(t) in received and n != 1:
            viol.append(("body-executions-per-task", {"key": w.owner.get(id(t)), "executions": n}))
    for tid, vals in received.items():
        first = vals[0]
        for v in vals[1:]:
            if v[0] != first[0] or v[1] is not first[1]:
                viol.append(("awaiters-of-one-task-received-different-objects", {"first": repr(first)[:100], "other": repr(v)[:100]}))
                break
    DeduplicateDecorator.tasks.clear()
    return viol, w


def run_shared_decorator(res, c):
    """ONE deduplicate() object (no custom keygetter) decorating several functions with DIFFERENT signatures, in
    every decoration order: each function's calls are normalised with its own signature."""
    import asynq
    from asynq import asynq as A
    from asynq.tools import DeduplicateDecorator, deduplicate
    from .. import harness

    specs = {
        "first": ("a, b=1", lambda a, b=1: (a, b)),
        "second": ("x, y=2, z=3", lambda x, y=2, z=3: (x, y, z)),
        "third": ("b, a=0", lambda b, a=0: (b, a)),
        "fourth": ("p, *, q=4", lambda p, *, q=4: (p, q)),
    }
    # (name, [equivalent spellings of ONE call], [a DIFFERENT call that looks alike under another signature])
    probes = [
        ("second", [((1,), {}), ((1, 2), {}), ((1,), {"y": 2}), ((), {"x": 1, "z": 3})], [((1, 3), {})]),
        ("third", [((7, 3), {}), ((7,), {"a": 3}), ((), {"a": 3, "b": 7})], [((3, 7), {}), ((), {"a": 7, "b": 3})]),
        ("first", [((5,), {}), ((5, 1), {}), ((), {"a": 5})], [((5, 2), {})]),
        ("fourth", [((9,), {}), ((9,), {"q": 4})], [((9,), {"q": 5})]),
    ]
    for order in itertools.permutations(sorted(specs)):
        asynq.scheduler.reset()
        DeduplicateDecorator.tasks.clear()
        rt = harness.HarnessRT({"nodes": [], "kinds": 1})
        dd = deduplicate()
        runs = []
        fn = {}
        ctr = itertools.count()

        def make(name):
            norm = specs[name][1]
            src = "def %s(%s):\n    runs.append((%r, norm(%s)))\n    yield HItem(rt, 0, 'sd%%d' %% next(ctr), ('sd', next(ctr)))\n    return (%r, norm(%s))\n" % (
                name,
                specs[name][0],
                name,
                ", ".join(p.split("=")[0].strip().lstrip("*").strip() + "=" + p.split("=")[0].strip() for p in specs[name][0].replace("*, ", "").split(", ")),
                name,
                ", ".join(p.split("=")[0].strip() + "=" + p.split("=")[0].strip() for p in specs[name][0].replace("*, ", "").split(", ")),
            )
            env = {"runs": runs, "norm": norm, "HItem": harness.HItem, "rt": rt, "ctr": ctr, "next": next}
            exec(src, env)
            return dd(A()(env[name]))

        for name in order:
            fn[name] = make(name)
        rt.attach()
        try:
            for name, same, other in probes:
                del runs[:]

                @A()
                def gather():
                    ts = [fn[name].asynq(*a, **k) for a, k in same]
                    os_ = [fn[name].asynq(*a, **k) for a, k in other]
                    vs = yield ts + os_
                    return ts, os_, vs

                try:
                    ts, os_, vs = gather()
                except BaseException as e:
                    res["violations"].append({"oracle": "shared-decorator-object", "mechanism": "shared-decorator-object/crashed", "detail": {"order": list(order), "function": name, "exc": repr(e)[:160]}, "case": {"mode": "shared_deco", "cases": [0, 1]}})
                    break
                res["evaluations"] += 1
                c["calls_through_one_shared_deduplicate_object"] = c.get("calls_through_one_shared_deduplicate_object", 0) + len(ts) + len(os_)
                probs = []
                if any(t is not ts[0] for t in ts):
                    probs.append("spellings of one call got different tasks")
                if any(o is ts[0] for o in os_):
                    probs.append("a different call shared the task")
                want_same = (name, specs[name][1](*same[0][0], **same[0][1]))
                if any(v != want_same for v in vs[: len(ts)]):
                    probs.append("wrong value for the shared call")
                for (a, k), v in zip(other, vs[len(ts) :]):
                    if v != (name, specs[name][1](*a, **k)):
                        probs.append("a different call received another call's value")
                if len(runs) != 1 + len(set(repr(specs[name][1](*a, **k)) for a, k in other)):
                    probs.append("body ran %d times" % len(runs))
                if probs and len(res["violations"]) < 8:
                    res["violations"].append(
                        {"oracle": "shared-decorator-object", "mechanism": "shared-decorator-object/" + probs[0].replace(" ", "-"), "detail": {"decoration_order": list(order), "function": name, "signature": specs[name][0], "problems": probs, "body_runs": runs[:6]}, "case": {"mode": "shared_deco", "cases": [0, 1]}}
                    )
        finally:
            rt.detach()
            DeduplicateDecorator.tasks.clear()
        res["nontrivial"].append(hash(("sd", order)) & 0xFFFFFFFFFFFF)


def run_unnamed_parameters(res, c):
    """Deduplicated functions WITHOUT named parameters (def f(*ids) / def f(**opts)): the arguments still are the key."""
    import asynq
    from asynq import asynq as A
    from asynq.tools import DeduplicateDecorator, deduplicate
    from .. import harness

    for variant in range(6):
        asynq.scheduler.reset()
        DeduplicateDecorator.tasks.clear()
        rt = harness.HarnessRT({"nodes": [], "kinds": 1})
        runs = []
        ctr = itertools.count()

        @deduplicate()
        @A()
        def star(*ids):
            runs.append(("star", ids))
            yield harness.HItem(rt, 0, "un%d" % next(ctr), ("un", next(ctr)))
            return ("star", ids)

        @deduplicate()
        @A()
        def kw(**opts):
            runs.append(("kw", tuple(sorted(opts.items()))))
            yield harness.HItem(rt, 0, "un%d" % next(ctr), ("un", next(ctr)))
            return ("kw", tuple(sorted(opts.items())))

        calls = [
            (star, (1, 2), {}), (star, (1, 2), {}), (star, (2, 1), {}), (star, (), {}), (star, (1,), {}), (star, (1, 2, 3), {}),
            (kw, (), {"x": 1}), (kw, (), {"x": 1}), (kw, (), {"x": 2}), (kw, (), {"y": 1}), (kw, (), {}), (kw, (), {"x": 1, "y": 2}), (kw, (), {"y": 2, "x": 1}),
        ]
        random.Random(variant).shuffle(calls)
        late = variant % 2 == 1
        dirty_one = variant >= 4

        @A()
        def asker(fn, a, k):
            if late:
                yield harness.HItem(rt, 0, "un%d" % next(ctr), ("un", next(ctr)))
            t = fn.asynq(*a, **k)
            return t, (yield t)

        @A()
        def gather():
            first = [asker.asynq(fn, a, k) for fn, a, k in calls[: len(calls) // 2]]
            rest = calls[len(calls) // 2 :]
            if dirty_one:
                # forgetting ONE key must not touch the calls in flight under other keys
                star.dirty(99)
                kw.dirty(zz=1)
            return (yield first + [asker.asynq(fn, a, k) for fn, a, k in rest])

        rt.attach()
        try:
            try:
                got = gather()
            except BaseException as e:
                res["violations"].append({"oracle": "functions-without-named-parameters", "mechanism": "functions-without-named-parameters/crashed", "detail": {"variant": variant, "exc": repr(e)[:200]}, "case": {"mode": "shared_deco", "cases": [0, 1]}})
                continue
        finally:
            rt.detach()
            DeduplicateDecorator.tasks.clear()
        res["evaluations"] += 1
        c["calls_of_deduplicated_functions_without_named_parameters"] = c.get("calls_of_deduplicated_functions_without_named_parameters", 0) + len(calls)
        probs = []
        keyof = lambda fn, a, k: (fn is star, a, tuple(sorted(k.items())))
        for i, ((fn, a, k), (t, v)) in enumerate(zip(calls, got)):
            want = ("star", a) if fn is star else ("kw", tuple(sorted(k.items())))
            if v != want:
                probs.append("call %r received %r" % (want, v))
            for (fn2, a2, k2), (t2, _v2) in list(zip(calls, got))[:i]:
                if (t2 is t) != (keyof(fn, a, k) == keyof(fn2, a2, k2)) and not late:
                    probs.append("calls %r and %r: same task is %s" % (keyof(fn2, a2, k2)[1:], keyof(fn, a, k)[1:], t2 is t))
        if not late and len(runs) != len(set(keyof(fn, a, k) for fn, a, k in calls)):
            probs.append("bodies ran %d times for %d different calls" % (len(runs), len(set(keyof(fn, a, k) for fn, a, k in calls))))
        if probs and len(res["violations"]) < 8:
            res["violations"].append({"oracle": "functions-without-named-parameters", "mechanism": "functions-without-named-parameters", "detail": {"variant": variant, "asked_one_step_later": late, "problems": probs[:4]}, "case": {"mode": "shared_deco", "cases": [0, 1]}})
        res["nontrivial"].append(hash(("un", variant)) & 0xFFFFFFFFFFFF)


def run_across_scheduler_reset(res, c):
    """The key is (function, arguments, THREAD): a call that was created and is not yet complete is still the one every
    further call on that thread gets after the thread's scheduler object was replaced by scheduler.reset()."""
    import asynq
    from asynq import asynq as A
    from asynq.tools import DeduplicateDecorator, deduplicate
    from .. import harness

    for state, spelling, method in itertools.product((1, 2), (0, 1), (False, True)):
        asynq.scheduler.reset()
        DeduplicateDecorator.tasks.clear()
        rt = harness.HarnessRT({"nodes": [], "kinds": 1})
        runs = []
        ctr = itertools.count()

        def body(a, b=2):
            runs.append((a, b))
            yield harness.HItem(rt, 0, "sr%d" % next(ctr), ("sr", next(ctr)))
            return ("v", a, b)

        if method:
            class K(object):
                @deduplicate()
                @A()
                def f(self, a, b=2):
                    return (yield from body(a, b))

            f = K().f
        else:
            f = deduplicate()(A()(body))
        rt.attach()
        try:
            t1 = f.asynq(1)
            for _ in range(state):
                asynq.scheduler.reset()
            t2 = f.asynq(1) if spelling == 0 else f.asynq(a=1, b=2)
            t3 = f.asynq(2)
            try:
                v2 = t2.value()
                v3 = t3.value()
                v1 = t1.value()
            except BaseException as e:
                v1 = v2 = v3 = ("raised", repr(e)[:120])
        finally:
            rt.detach()
            DeduplicateDecorator.tasks.clear()
        res["evaluations"] += 1
        c["calls_repeated_after_the_threads_scheduler_was_replaced"] = c.get("calls_repeated_after_the_threads_scheduler_was_replaced", 0) + 1
        probs = []
        if t2 is not t1:
            probs.append("the repeated call got another task")
        if t3 is t1:
            probs.append("a different call shared the task")
        if (v1, v2, v3) != (("v", 1, 2), ("v", 1, 2), ("v", 2, 2)):
            probs.append("values %r" % ((v1, v2, v3),))
        if sorted(runs) != [(1, 2), (2, 2)]:
            probs.append("body runs %r" % (runs,))
        if probs and len(res["violations"]) < 8:
            res["violations"].append({"oracle": "same-call-across-scheduler-reset", "mechanism": "same-call-across-scheduler-reset", "detail": {"resets_between_the_calls": state, "method": method, "problems": probs}, "case": {"mode": "shared_deco", "cases": [0, 1]}})
        res["nontrivial"].append(hash(("sr", state, spelling, method)) & 0xFFFFFFFFFFFF)
    asynq.scheduler.reset()


def plan(tier, seed, build, scale):
    n = int((1600 if tier == "quick" else 120000) * scale)
    per = max(1, n // (8 if tier == "quick" else 64))
    units = [{"mode": "generations", "n": 200 if tier == "quick" else 3000, "cases": [0, 1]}, {"mode": "shared_deco", "cases": [0, 1]}]
    a = 0
    while a < n:
        units.append({"cases": [a, min(n, a + per)]})
        a += per
    return units


def run_unit(unit, progress):
    res = tl.new_result()
    c = res["counters"]
    if unit.get("mode") == "shared_deco":
        progress(0)
        run_shared_decorator(res, c)
        run_unnamed_parameters(res, c)
        run_across_scheduler_reset(res, c)
        return res
    if unit.get("mode") == "generations":
        # "thread" is part of the key: a new thread never shares with a finished one, even when the OS re-issues
        # the finished thread's identifier
        from .. import generations

        progress(0)
        viol, stats = generations.run_generations(unit["n"])
        res["evaluations"] = stats["generations"]
        c["sequential_thread_generations"] = stats["generations"]
        c["thread_idents_reused"] = stats["thread_idents_reused"]
        for v in viol[:2]:
            res["violations"].append({"oracle": v[0], "mechanism": v[0] + "/sequential-threads", "detail": v[1], "case": dict(unit)})
        return res

    def inc(k, n=1):
        c[k] = c.get(k, 0) + n

    a, b = unit["cases"]
    for i in range(a, b):
        progress(i)
        cs = tl.case_seed(unit["seed"], ID, i)
        rnd = random.Random(cs)
        sc = make_script(rnd)
        bad = False
        blocked = 0
        for pol in [None, ("kind", [1, 0]), ("rand", cs & 0xFFFF, 3)][: (2 if unit["tier"] == "quick" else 3)]:
            viol, w = run_script(sc, pol, cs)
            res["evaluations"] += 1
            inc("calls", w.calls_total)
            inc("calls_while_first_in_flight_and_blocked", w.calls_inflight_blocked)
            inc("calls_sharing_an_in_flight_task", w.shared_hits)
            inc("calls_from_inside_running_body_unconstrained", w.calls_unconstrained)
            inc("reruns_after_completion", w.after_completion)
            inc("reruns_after_dirty", w.after_dirty)
            inc("answers_checked_against_requested_arguments", w.answers_checked)
            inc("reentries_from_an_except_handler", w.reentries_from_handler)
            inc("reentries_from_an_except_handler_after_a_handmade_error", w.reentries_after_a_handmade_error)
            inc("dirty_calls_from_the_running_body_itself", w.dirty_from_own_body)
            inc("requests_by_tasks_the_suspended_body_created", w.asked_by_descendants)
            inc("deduplicated_proxy_checks", w.proxy_checks)
            blocked += w.calls_inflight_blocked
            if viol and not bad:
                bad = True
                for v in viol[:3]:
                    res["violations"].append(
                        {
                            "oracle": v[0],
                            "mechanism": classify(v, sc),
                            "detail": {"prio": pol, "violation": v[1], "script": sc},
                            "case": {"cases": [i, i + 1]},
                        }
                    )
        if blocked:
            res["nontrivial"].append(hash(repr(sc)) & 0xFFFFFFFFFFFF)
        if len(res["samples"]) < 1 and blocked:
            res["samples"].append(sc)
    return res


def classify(v, sc):
    return v[0]


def reach(c, tier):
    out = []
    for k in ("calls_while_first_in_flight_and_blocked", "calls_sharing_an_in_flight_task", "reruns_after_completion", "reruns_after_dirty", "calls_from_inside_running_body_unconstrained", "calls_through_one_shared_deduplicate_object", "requests_by_tasks_the_suspended_body_created", "dirty_calls_from_the_running_body_itself"):
        if not c.get(k):
            out.append("%s is zero" % k)
    return out
