"""C09 - all ways of calling an async function agree, for every kind of callable."""
import itertools
import random

from .. import tl
from ..lang import exc_desc

ID = "C09"
LEVEL = "exploration"
RULE = (
    "the finite matrix decorator {asynq, asynq(pure=True), async_proxy, asynq(sync_fn=), async_proxy(sync_fn=), "
    "make_async_decorator (over @asynq() and over a pure async function), deduplicate, deduplicate stacked on asynq(sync_fn=), aretry, alru_cache, acached_per_instance} x binding {function, method via "
    "instance, via an instance that is falsy (defines __len__ == 0), via class with explicit instance, via subclass "
    "instance, classmethod via class / instance / subclass, staticmethod via class / instance} (wrappers only on the "
    "bindings they are written for) x 6 argument patterns (positional, keyword, defaults omitted, keyword-only, all "
    "keywords, mixed) x body {plain function, generator awaiting a child, generator blocking on a batch item, a blocking generator whose outermost activation requests the SAME callable with the same arguments from inside itself - by sync call, .asynq().value() or async_call in turn - and must get the twin's value} is "
    "ENUMERATED COMPLETELY in both tiers (thorough adds random argument values); in addition, for every decorator x body ONE decorated object is reached through all its bindings one after another in seeded orders (class before subclass and the reverse, instance before class ...); for each cell the sync call, "
    ".asynq().value(), yielding .asynq() from a task, async_call (value() and yielded) must all equal a plain-Python twin "
    "evaluated with the same bound instance/class and normalised arguments (sync_fn's twin for the sync call); "
    "is_async_fn / is_pure_async_fn / has_async_fn / get_async_fn / get_async_or_sync_fn must agree with how the object "
    "can actually be called. distinct = cell; non-trivial = every cell (each runs at least 4 conventions)."
)
RULE += (
    " Added body: a plain function that hands back its value through asynq.result(). Added conventions per "
    "cell: the same requests (sync call, .asynq().value(), async_call) made synchronously by a task that is "
    "RUNNING at that moment. Two more units: look-alike callables (two decorated callables made by one "
    "factory, asked for with equal arguments while the other is in flight: 7 decorators x function / method of "
    "instances that compare equal / staticmethod x 4 conventions) and short-lived instances (60 instances per "
    "decorator come and go - a later one may live where an earlier one did - calling their method with the "
    "same arguments through 5 conventions). The short-lived-instances unit also puts two or three calls in "
    "flight together on a fresh instance (same / different arguments; all, the first or the last body "
    "failing): every call ends with its own body's outcome. Unit finished futures: deduplicate / aretry over "
    "async_proxy callables that hand back finished futures computed from state that changes between calls."
)
ASSUMPTIONS = ["bodies are deterministic, so cached wrappers (alru_cache, acached_per_instance, deduplicate) return the twin's value on every call"]
UNIT_TIMEOUT = {"quick": 200, "thorough": 1200}

DECOS = ["asynq", "pure", "proxy", "pair", "proxy_pair", "mad", "mad_pure", "mad_plainwrap", "dedup", "dedup_pair", "aretry", "alru", "per_instance"]
BODIES = ["plain", "gen", "batch", "reenter", "result"]
NO_REENTER = ("proxy", "proxy_pair")  # their bodies only build a future; nothing runs "inside" them (nor hands back a result)
PATTERNS = [
    ((1, 2), {}),
    ((1,), {"y": 2}),
    ((1,), {}),
    ((1,), {"z": 5}),
    ((), {"x": 1, "y": 2, "z": 5}),
    ((1, 2), {"z": 5}),
]
BINDINGS = {
    "function": "none",
    "method_inst": "inst:a",
    "method_falsy_inst": "inst:falsy",
    "method_class_explicit": "inst:a",
    "method_subclass_inst": "inst:sub",
    "classmethod_class": "cls:K",
    "classmethod_inst": "cls:K",
    "classmethod_subclass": "cls:Sub",
    "static_class": "none",
    "static_inst": "none",
}
SUPPORTED = {
    "asynq": list(BINDINGS),
    "pure": list(BINDINGS),
    "proxy": list(BINDINGS),
    "pair": list(BINDINGS),
    "proxy_pair": ["function", "method_inst", "method_falsy_inst", "method_class_explicit", "method_subclass_inst"],
    "mad": list(BINDINGS),
    "mad_pure": list(BINDINGS),
    "mad_plainwrap": list(BINDINGS),
    "dedup": list(BINDINGS),
    # (stacking is not among the statement's combinations for classmethods: sync_fn is bound by the pair's own
    #  __get__, which an outer decorator's binder bypasses)
    "dedup_pair": ["function", "method_inst", "method_falsy_inst", "method_class_explicit", "method_subclass_inst", "static_class", "static_inst"],
    "aretry": ["function", "method_inst", "method_falsy_inst", "method_class_explicit", "method_subclass_inst"],
    "alru": ["function", "method_inst", "method_falsy_inst", "method_class_explicit", "method_subclass_inst"],
    "per_instance": ["method_inst", "method_falsy_inst", "method_class_explicit", "method_subclass_inst"],
}


def tag_of(bound):
    if bound is None:
        return "none"
    if isinstance(bound, type):
        return "cls:" + bound.__name__
    return "inst:" + bound.name


def twin(bound, x, y=10, *, z=100):
    return ("res", tag_of(bound), x, y, z)


def sync_twin(bound, x, y=10, *, z=100):
    return ("sync", tag_of(bound), x, y, z)


class World(object):
    pass


def build(deco, body, rt):
    """Returns a namespace with f, K, Sub, Kf built for (deco, body)."""
    import asynq
    from asynq import asynq as A
    from asynq import async_proxy, make_async_decorator
    from asynq.tools import acached_per_instance, alru_cache, aretry, deduplicate
    from .. import harness

    ctr = itertools.count()
    ns = World()
    ns.reenter = None  # set by run_cell: a request for the SAME callable and arguments, issued from inside the running body
    ns.nested = []

    def maybe_reenter():
        h = ns.reenter
        if h is not None:
            ns.reenter = None
            ns.nested.append(h())

    @A()
    def child(v):
        return v

    @A()
    def inner(bound, x, y, z):
        if body == "gen":
            x = yield child.asynq(x)
        elif body == "batch":
            yield harness.HItem(rt, 0, "b%d" % next(ctr), ("c09", next(ctr)))
        return ("res", tag_of(bound), x, y, z)

    # ---- the three body shapes, written out (generator-ness is syntactic)
    def mk_body(kind):
        """kind: 'f' (no bound arg), 'm' (self), 'c' (cls)."""
        if body == "plain":
            if kind == "f":
                def fn(x, y=10, *, z=100):
                    return ("res", "none", x, y, z)
            else:
                def fn(bound, x, y=10, *, z=100):
                    return ("res", tag_of(bound), x, y, z)
        elif body == "result":
            # a plain (non-generator) body that hands back its value through the public asynq.result()
            if kind == "f":
                def fn(x, y=10, *, z=100):
                    asynq.result(("res", "none", x, y, z))
            else:
                def fn(bound, x, y=10, *, z=100):
                    asynq.result(("res", tag_of(bound), x, y, z))
        elif body == "gen":
            if kind == "f":
                def fn(x, y=10, *, z=100):
                    x = yield child.asynq(x)
                    return ("res", "none", x, y, z)
            else:
                def fn(bound, x, y=10, *, z=100):
                    x = yield child.asynq(x)
                    return ("res", tag_of(bound), x, y, z)
        elif body == "batch":
            if kind == "f":
                def fn(x, y=10, *, z=100):
                    yield harness.HItem(rt, 0, "b%d" % next(ctr), ("c09", next(ctr)))
                    return ("res", "none", x, y, z)
            else:
                def fn(bound, x, y=10, *, z=100):
                    yield harness.HItem(rt, 0, "b%d" % next(ctr), ("c09", next(ctr)))
                    return ("res", tag_of(bound), x, y, z)
        else:
            # the outermost activation asks for the same callable with the same arguments from inside itself
            if kind == "f":
                def fn(x, y=10, *, z=100):
                    maybe_reenter()
                    yield harness.HItem(rt, 0, "b%d" % next(ctr), ("c09", next(ctr)))
                    return ("res", "none", x, y, z)
            else:
                def fn(bound, x, y=10, *, z=100):
                    maybe_reenter()
                    yield harness.HItem(rt, 0, "b%d" % next(ctr), ("c09", next(ctr)))
                    return ("res", tag_of(bound), x, y, z)
        return fn

    def mk_proxy_body(kind):
        if kind == "f":
            def fn(x, y=10, *, z=100):
                return inner.asynq(None, x, y, z)
        else:
            def fn(bound, x, y=10, *, z=100):
                return inner.asynq(bound, x, y, z)
        return fn

    def mk_sync(kind):
        if kind == "f":
            def sfn(x, y=10, *, z=100):
                return ("sync", "none", x, y, z)
        else:
            def sfn(bound, x, y=10, *, z=100):
                return ("sync", tag_of(bound), x, y, z)
        return sfn

    def mad(fn):
        @A(pure=True)
        def wrapper_fn(*args, **kwargs):
            v = yield fn.asynq(*args, **kwargs)
            return ("wrapped", v)

        return make_async_decorator(fn, wrapper_fn, "wrapping")

    def mad_generic(fn):
        from asynq import get_async_fn

        @A(pure=True)
        def wrapper_fn(*args, **kwargs):
            v = yield get_async_fn(fn)(*args, **kwargs)
            return ("wrapped", v)

        return make_async_decorator(fn, wrapper_fn, "wrapping")

    def apply(kind, wrap=None):
        """Decorate a fresh body of the given kind; wrap = classmethod|staticmethod|None."""
        raw = mk_proxy_body(kind) if deco in ("proxy", "proxy_pair") else mk_body(kind)
        fn = wrap(raw) if wrap is not None else raw
        if deco == "asynq":
            return A()(fn)
        if deco == "pure":
            return A(pure=True)(fn)
        if deco == "proxy":
            return async_proxy()(fn)
        if deco == "pair":
            s = mk_sync(kind)
            s = wrap(s) if wrap is not None else s
            return A(sync_fn=s)(fn)
        if deco == "proxy_pair":
            return async_proxy(sync_fn=mk_sync(kind))(fn)
        if deco == "mad":
            return mad(A()(fn))
        if deco == "mad_plainwrap":
            # a decorator whose wrapper is an ORDINARY function (a logging / counting decorator) that hands back the
            # wrapped call's future - all make_async_decorator asks of it
            inner_fn = A()(fn)

            def passing(*args, **kwargs):
                return inner_fn.asynq(*args, **kwargs)

            return make_async_decorator(inner_fn, passing, "passing")
        if deco == "mad_pure":
            # the same generic decorator over a PURE async function: the result is still an ordinary (non-pure) one
            return mad_generic(A(pure=True)(fn))
        if deco == "dedup":
            return deduplicate()(A()(fn))
        if deco == "dedup_pair":
            # decorators stacked: the sync call of the stack still runs sync_fn
            s = mk_sync(kind)
            s = wrap(s) if wrap is not None else s
            return deduplicate()(A(sync_fn=s)(fn))
        if deco == "aretry":
            # every call fails on its first try and succeeds on the second, which is the last one permitted
            inner_fn = A()(fn)
            tries = {"n": 0}

            @A()
            def flaky(*a, **k):
                tries["n"] += 1
                if tries["n"] % 2 == 1:
                    raise ValueError("first try")
                v = yield inner_fn.asynq(*a, **k)
                return v

            return aretry(ValueError, max_tries=2, sleep=0)(flaky)
        if deco == "alru":
            return alru_cache(maxsize=8)(A()(fn))
        if deco == "per_instance":
            return acached_per_instance()(A()(fn))
        raise AssertionError(deco)

    ns.f = apply("f") if "function" in SUPPORTED[deco] else None
    attrs = {"name": "a", "m": apply("m")}
    if "classmethod_class" in SUPPORTED[deco]:
        attrs["cm"] = apply("c", classmethod)
    if "static_class" in SUPPORTED[deco]:
        attrs["sm"] = apply("f", staticmethod)

    def init(self, name="a"):
        self.name = name

    attrs["__init__"] = init
    K = type("K", (object,), attrs)
    Sub = type("Sub", (K,), {})
    Kf = type("K", (K,), {"__len__": lambda self: 0})
    ns.K, ns.Sub, ns.Kf = K, Sub, Kf
    ns.a = K("a")
    ns.sub = Sub("sub")
    ns.falsy = Kf("falsy")
    return ns


def access(ns, binding):
    """(callable, extra leading args, bound object for the twin)."""
    if binding == "function":
        return ns.f, (), None
    if binding == "method_inst":
        return ns.a.m, (), ns.a
    if binding == "method_falsy_inst":
        return ns.falsy.m, (), ns.falsy
    if binding == "method_class_explicit":
        return ns.K.m, (ns.a,), ns.a
    if binding == "method_subclass_inst":
        return ns.sub.m, (), ns.sub
    if binding == "classmethod_class":
        return ns.K.cm, (), ns.K
    if binding == "classmethod_inst":
        return ns.a.cm, (), ns.K
    if binding == "classmethod_subclass":
        return ns.Sub.cm, (), ns.Sub
    if binding == "static_class":
        return ns.K.sm, (), None
    if binding == "static_inst":
        return ns.a.sm, (), None
    raise AssertionError(binding)


def outcome(fn):
    try:
        return ("val", fn())
    except BaseException as e:
        return ("exc", exc_desc(e))


def run_cell(deco, body, binding, pat, argvals=None, shared=None):
    import asynq
    from asynq import asynq as A
    from asynq import async_call, get_async_fn, get_async_or_sync_fn, has_async_fn, is_async_fn, is_pure_async_fn
    from asynq.futures import FutureBase
    from asynq.tools import DeduplicateDecorator
    from .. import harness

    asynq.scheduler.reset()
    DeduplicateDecorator.tasks.clear()
    if shared is None:
        rt = harness.HarnessRT({"nodes": [], "kinds": 1})
        ns = build(deco, body, rt)
    else:
        rt, ns = shared
    c, lead, bound = access(ns, binding)
    args, kw = pat
    if argvals is not None:
        args = tuple(argvals[i] for i in range(len(args)))
        kw = {k: argvals[3 + j] for j, k in enumerate(sorted(kw))}
    full = lead + tuple(args)
    exp = twin(bound if binding not in ("function", "static_class", "static_inst") else None, *args, **kw)
    if deco in ("mad", "mad_pure"):
        exp = ("wrapped", exp)
    exp_sync = exp
    if deco in ("pair", "proxy_pair", "dedup_pair"):
        exp_sync = sync_twin(bound if binding not in ("function", "static_class", "static_inst") else None, *args, **kw)
    viol = []
    nconv = 0
    pure = deco == "pure"

    @A()
    def yielder(fut_fn):
        v = yield fut_fn()
        return v

    @A()
    def inside(call):
        # the request is made synchronously by a task that is running at that moment
        v = call()
        yield None
        return ("outer task finished", v)

    nested_kinds = [
        ("sync call", (lambda: c(*full, **kw).value()) if pure else (lambda: c(*full, **kw)), exp if pure else exp_sync),
        (".asynq().value()", (lambda: c(*full, **kw).value()) if pure else (lambda: c.asynq(*full, **kw).value()), exp),
        ("async_call()", lambda: async_call(c, *full, **kw), exp),
    ]
    turn = [0]

    def conv(name, fn, want):
        if body == "reenter":
            nk = nested_kinds[turn[0] % 3]
            turn[0] += 1
            ns.reenter = lambda: outcome(nk[1])
            del ns.nested[:]
        got = outcome(fn)
        if got != ("val", want):
            viol.append(("convention-disagrees", {"convention": name, "expected": want, "observed": got}))
        if body == "reenter":
            if ns.reenter is None and ns.nested:
                ns.reentered += 1
                if ns.nested[0] != ("val", nk[2]):
                    viol.append(("re-entrant-request-disagrees", {"outer_convention": name, "request_from_inside_the_body": nk[0], "expected": nk[2], "observed": ns.nested[0]}))
            ns.reenter = None
        return 1

    ns.reentered = getattr(ns, "reentered", 0)

    rt.attach()
    try:
        if pure:
            nconv += conv("call().value()", lambda: c(*full, **kw).value(), exp)
            nconv += conv("yield call()", lambda: yielder(lambda: c(*full, **kw)), exp)
        else:
            nconv += conv("sync call", lambda: c(*full, **kw), exp_sync)
            nconv += conv(".asynq().value()", lambda: c.asynq(*full, **kw).value(), exp)
            nconv += conv("yield .asynq()", lambda: yielder(lambda: c.asynq(*full, **kw)), exp)
        if pure:
            nconv += conv("call().value() inside a running task", lambda: inside(lambda: c(*full, **kw).value()), ("outer task finished", exp))
        else:
            nconv += conv("sync call inside a running task", lambda: inside(lambda: c(*full, **kw)), ("outer task finished", exp_sync))
            nconv += conv(".asynq().value() inside a running task", lambda: inside(lambda: c.asynq(*full, **kw).value()), ("outer task finished", exp))
        nconv += conv("async_call() sync inside a running task", lambda: inside(lambda: async_call(c, *full, **kw)), ("outer task finished", exp))
        nconv += conv("async_call.asynq().value()", lambda: async_call.asynq(c, *full, **kw).value(), exp)
        nconv += conv("yield async_call.asynq()", lambda: yielder(lambda: async_call.asynq(c, *full, **kw)), exp)
        nconv += conv("async_call() sync", lambda: async_call(c, *full, **kw), exp)
        # ---- classification helpers vs how it can actually be called
        cls = {}
        try:
            cls = {"pure": is_pure_async_fn(c), "has": has_async_fn(c), "is": is_async_fn(c)}
        except BaseException as e:
            viol.append(("classification-raised", exc_desc(e)))
        if cls:
            if cls["pure"] != pure:
                viol.append(("is_pure_async_fn", {"returned": cls["pure"], "calling_returns_a_future": pure}))
            if cls["has"] != (not pure):
                viol.append(("has_async_fn", {"returned": cls["has"], "has_asynq_attribute": hasattr(c, "asynq")}))
            if cls["is"] is not True:
                viol.append(("is_async_fn", {"returned": cls["is"]}))
            if cls["pure"]:
                r = outcome(lambda: isinstance(c(*full, **kw), FutureBase))
                if r != ("val", True):
                    viol.append(("pure-but-call-returns-no-future", {"observed": r}))
            if cls["has"]:
                r = outcome(lambda: isinstance(c.asynq(*full, **kw), FutureBase))
                if r != ("val", True):
                    viol.append(("has_async_fn-but-asynq-returns-no-future", {"observed": r}))
        gaf = outcome(lambda: get_async_fn(c))
        if gaf[0] != "val" or gaf[1] is None:
            viol.append(("get_async_fn", {"observed": repr(gaf)[:120]}))
        else:
            nconv += conv("get_async_fn()().value()", lambda: gaf[1](*full, **kw).value(), exp)
        gas = outcome(lambda: get_async_or_sync_fn(c))
        if gas[0] != "val":
            viol.append(("get_async_or_sync_fn", {"observed": repr(gas)[:120]}))
        else:
            nconv += conv("get_async_or_sync_fn()().value()", lambda: gas[1](*full, **kw).value(), exp)
    finally:
        rt.detach()
        DeduplicateDecorator.tasks.clear()
        ns.reenter = None
    REENTERED[0] += ns.reentered
    ns.reentered = 0
    return viol, nconv


REENTERED = [0]


def run_shared_namespace(deco, body, order_seed):
    """One decorated function/class; every binding is reached through it, one after another, in a
    seeded order - descriptors that cache anything per access path would show here."""
    import random as _r
    from .. import harness

    rt = harness.HarnessRT({"nodes": [], "kinds": 1})
    ns = build(deco, body, rt)
    order = list(SUPPORTED[deco]) * 2
    _r.Random(order_seed).shuffle(order)
    viol = []
    nconv = 0
    for j, binding in enumerate(order):
        v, n = run_cell(deco, body, binding, PATTERNS[(order_seed + j) % len(PATTERNS)], None, shared=(rt, ns))
        nconv += n
        for x in v:
            viol.append((x[0], dict(x[1], binding=binding, access_order=order[: j + 1][-6:]) if isinstance(x[1], dict) else {"binding": binding, "violation": x[1]}))
        if viol:
            break
    return viol, nconv


def classify_plain(res, c):
    """Undecorated callables: helpers must say 'not async' and wrap on request."""
    from asynq import get_async_fn, get_async_or_sync_fn, has_async_fn, is_async_fn, is_pure_async_fn
    from asynq.futures import FutureBase

    def plain(x, y=10):
        return ("plain", x, y)

    class P(object):
        def m(self, x):
            return ("pm", x)

    viol = []
    for obj, args, want in ((plain, (1,), ("plain", 1, 10)), (P().m, (2,), ("pm", 2)), (len, ([1, 2],), 2)):
        c["plain_callables"] = c.get("plain_callables", 0) + 1
        if is_async_fn(obj) or has_async_fn(obj) or is_pure_async_fn(obj):
            viol.append(("plain-callable-classified-async", {"obj": repr(obj)[:60]}))
        if get_async_fn(obj) is not None:
            viol.append(("get_async_fn-of-plain-callable", {"obj": repr(obj)[:60]}))
        w = get_async_fn(obj, wrap_if_none=True)
        r = outcome(lambda: w(*args))
        if r[0] != "val" or not isinstance(r[1], FutureBase) or r[1].value() != want or not is_pure_async_fn(w):
            viol.append(("get_async_fn-wrap_if_none", {"obj": repr(obj)[:60], "observed": repr(r)[:100]}))
        if get_async_or_sync_fn(obj) is not obj:
            viol.append(("get_async_or_sync_fn-of-plain-callable", {"obj": repr(obj)[:60]}))
    for v in viol:
        res["violations"].append({"oracle": v[0], "mechanism": v[0], "detail": v[1], "case": {"mode": "plain", "cases": [0, 1]}})


def run_twins(res, c):
    """Two DIFFERENT decorated callables that look alike (made by one factory: same module, same __name__, same
    signature), asked for with equal arguments while the other one is still in flight: each convention must run
    the callable's OWN body."""
    import asynq
    from asynq import asynq as A
    from asynq import async_call, async_proxy, make_async_decorator
    from asynq.tools import DeduplicateDecorator, acached_per_instance, alru_cache, aretry, deduplicate
    from .. import harness

    def wrap(deco, fn, sfn):
        if deco == "asynq":
            return A()(fn)
        if deco == "pair":
            return A(sync_fn=sfn)(fn)
        if deco == "dedup":
            return deduplicate()(A()(fn))
        if deco == "dedup_pair":
            return deduplicate()(A(sync_fn=sfn)(fn))
        if deco == "alru":
            return alru_cache(maxsize=8)(A()(fn))
        if deco == "aretry":
            return aretry(ValueError, max_tries=2, sleep=0)(A()(fn))
        if deco == "proxy":
            inner = A()(fn)

            def fetch(x, y=10):
                return inner.asynq(x, y)

            return async_proxy()(fetch)
        raise AssertionError(deco)

    for deco in ("asynq", "pair", "dedup", "dedup_pair", "alru", "aretry", "proxy"):
        for how in ("function", "method", "staticmethod"):
            if deco == "proxy" and how == "method":
                continue  # (the proxy above forwards positional x, y only)
            asynq.scheduler.reset()
            DeduplicateDecorator.tasks.clear()
            rt = harness.HarnessRT({"nodes": [], "kinds": 1})
            ctr = itertools.count()

            def make(tag):
                if how == "method":
                    def fetch(self, x, y=10):
                        yield harness.HItem(rt, 0, "t%d" % next(ctr), ("c09t", next(ctr)))
                        return (tag, x, y)

                    def sfetch(self, x, y=10):
                        return (tag, x, y)

                    K = type("Store", (object,), {"fetch": wrap(deco, fetch, sfetch), "__eq__": lambda s, o: True, "__hash__": lambda s: 7})
                    return K().fetch

                def fetch(x, y=10):
                    yield harness.HItem(rt, 0, "t%d" % next(ctr), ("c09t", next(ctr)))
                    return (tag, x, y)

                def sfetch(x, y=10):
                    return (tag, x, y)

                w = wrap(deco, fetch, sfetch)
                if how == "staticmethod":
                    K = type("Store", (object,), {"fetch": staticmethod(w)})
                    return K.fetch
                return w

            f1, f2 = make("users"), make("posts")
            want = (("users", 7, 10), ("posts", 7, 10))

            @A()
            def both_yield():
                return (yield f1.asynq(7), f2.asynq(7))

            @A()
            def both_async_call():
                return (yield async_call.asynq(f1, 7), async_call.asynq(f2, y=10, x=7))

            @A()
            def second_while_first_pending():
                t1 = f1.asynq(7)
                v2 = f2.asynq(7).value()
                v1 = yield t1
                return (v1, v2)

            convs = [
                ("yield both .asynq()", both_yield),
                ("yield both through async_call", both_async_call),
                (".asynq().value() of one while the other is pending", second_while_first_pending),
                ("sync calls", lambda: (f1(7), f2(7))),
            ]
            rt.attach()
            try:
                for name, fn in convs:
                    got = outcome(fn)
                    res["evaluations"] += 1
                    c["lookalike_callables_compared"] = c.get("lookalike_callables_compared", 0) + 1
                    if got != ("val", want) and len(res["violations"]) < 8:
                        res["violations"].append(
                            {
                                "oracle": "lookalike-callables-confused",
                                "mechanism": "lookalike-callables-confused/" + deco,
                                "detail": {"decorator": deco, "binding": how, "convention": name, "expected": want, "observed": repr(got)[:200]},
                                "case": {"mode": "twins", "cases": [0, 1]},
                            }
                        )
            finally:
                rt.detach()
            res["nontrivial"].append(hash(("twins", deco, how)) & 0xFFFFFFFFFFFF)


def run_reborn(res, c):
    """Instances that come and go: each of many short-lived instances (a later one may well be allocated where an
    earlier one lived) calls its decorated method with the SAME arguments; every convention must run the body with
    the instance it was called on."""
    import gc
    import asynq
    from asynq import asynq as A
    from asynq import async_call
    from asynq.tools import DeduplicateDecorator, acached_per_instance, alru_cache, deduplicate

    decos = {
        "asynq": lambda f: A()(f),
        "dedup": lambda f: deduplicate()(A()(f)),
        "alru": lambda f: alru_cache(maxsize=4)(A()(f)),
        "per_instance": lambda f: acached_per_instance()(A()(f)),
    }
    for deco, wrap in sorted(decos.items()):
        for body in ("plain", "gen"):
            asynq.scheduler.reset()
            DeduplicateDecorator.tasks.clear()

            @A()
            def child(v):
                return v

            if body == "plain":
                def describe(self, x, y=10):
                    return (self.name, x, y)
            else:
                def describe(self, x, y=10):
                    x = yield child.asynq(x)
                    return (self.name, x, y)

            Store = type("Store", (object,), {"describe": wrap(describe), "__init__": lambda self, name: setattr(self, "name", name)})

            @A()
            def yielder(m):
                return (yield m.asynq(7))

            convs = [
                ("sync call", lambda s: s.describe(7)),
                (".asynq().value()", lambda s: s.describe.asynq(7).value()),
                ("yield .asynq()", lambda s: yielder(s.describe)),
                ("async_call", lambda s: async_call(s.describe, 7)),
                ("through the class", lambda s: Store.describe(s, 7)),
            ]
            for k in range(60):
                s = Store("n%d" % k)
                name, fn = convs[k % len(convs)]
                got = outcome(lambda: fn(s))
                res["evaluations"] += 1
                c["calls_on_short_lived_instances"] = c.get("calls_on_short_lived_instances", 0) + 1
                if got != ("val", ("n%d" % k, 7, 10)) and len(res["violations"]) < 8:
                    res["violations"].append(
                        {
                            "oracle": "body-ran-for-another-instance",
                            "mechanism": "body-ran-for-another-instance/" + deco,
                            "detail": {"decorator": deco, "body": body, "convention": name, "instance": "n%d" % k, "observed": repr(got)[:160]},
                            "case": {"mode": "reborn", "cases": [0, 1]},
                        }
                    )
                    break
                del s
                gc.collect()
            res["nontrivial"].append(hash(("reborn", deco, body)) & 0xFFFFFFFFFFFF)
    run_failing_pairs(res, c, decos)
    run_finished_futures(res, c)


def run_finished_futures(res, c):
    """Stacked decorators over an async_proxy whose body hands back an ALREADY finished future (ConstFuture /
    ErrorFuture) computed from state that changes between calls: nothing is in flight after the call, so a later call
    with equal arguments runs the body again (deduplicate, aretry) - through every asynchronous convention."""
    import asynq
    from asynq import asynq as A, async_call, async_proxy, ConstFuture
    from asynq.futures import ErrorFuture
    from asynq.tools import DeduplicateDecorator, aretry, deduplicate

    class Boom(Exception):
        pass

    stacks = {"deduplicate": lambda f: deduplicate()(f), "aretry": lambda f: aretry(KeyError, max_tries=2)(f)}
    for sname, stack in sorted(stacks.items()):
        for bound in ("function", "method"):
            for first_fails in (False, True):
                asynq.scheduler.reset()
                DeduplicateDecorator.tasks.clear()
                state = {"v": 1, "runs": 0}

                def body(k):
                    state["runs"] += 1
                    if first_fails and state["v"] == 1:
                        return ErrorFuture(Boom((k, state["v"])))
                    return ConstFuture((k, state["v"]))

                if bound == "function":
                    f = stack(async_proxy()(body))
                else:
                    K = type("K", (object,), {"m": stack(async_proxy()(lambda self, k: body(k)))})
                    f = K().m

                @A()
                def yielder(k):
                    return (yield f.asynq(k))

                convs = [(".asynq().value()", lambda: f.asynq("k").value()), ("yield .asynq()", lambda: yielder("k")), ("async_call", lambda: async_call(f, "k"))]
                for cname, call in convs:
                    for v in (1, 2, 3):
                        state["v"] = v
                        got = outcome(call)
                        res["evaluations"] += 1
                        c["calls_of_stacked_decorators_over_finished_futures"] = c.get("calls_of_stacked_decorators_over_finished_futures", 0) + 1
                        want = ("exc", ("Boom", (("k", 1),))) if (first_fails and v == 1) else ("val", ("k", v))
                        ok = got == want or (got[0] == "exc" and want[0] == "exc" and got[1][0] == "Boom")
                        if not ok and len(res["violations"]) < 8:
                            res["violations"].append(
                                {
                                    "oracle": "stale-outcome-of-an-earlier-call",
                                    "mechanism": "stale-outcome-of-an-earlier-call/" + sname,
                                    "detail": {"decorators": sname + " over async_proxy", "bound": bound, "convention": cname, "state": v, "expected": repr(want), "observed": repr(got)[:160]},
                                    "case": {"mode": "reborn", "cases": [0, 1]},
                                }
                            )
                res["nontrivial"].append(hash(("finished", sname, bound, first_fails)) & 0xFFFFFFFFFFFF)
    DeduplicateDecorator.tasks.clear()


def run_failing_pairs(res, c, decos):
    """Several calls of one decorated method in flight at once on a FRESH instance (nothing cached, nothing
    registered yet), bodies that block and then fail: every call ends with the exception of its own body."""
    import asynq
    from asynq import asynq as A
    from asynq import debug as adebug
    from asynq.tools import DeduplicateDecorator

    class Boom(Exception):
        pass

    for deco, wrap in sorted(decos.items()):
        for argsets in (((1,), (2,)), ((1,), (1,)), ((1,), (2,), (3,)), ((1,), (2, 10), (1,))):
            for fails in ("all", "first", "last"):
                asynq.scheduler.reset()
                DeduplicateDecorator.tasks.clear()

                def describe(self, x, y=10):
                    self.runs.append((x, y))
                    yield adebug.sync()
                    n = len(self.runs)
                    if fails == "all" or (fails == "first" and (x, y) == self.first) or (fails == "last" and (x, y) == self.last):
                        raise Boom(self.name, x, y)
                    return (self.name, x, y)

                def init(self, name):
                    self.name = name
                    self.runs = []
                    self.first = argsets[0] + (10,) * (2 - len(argsets[0]))
                    self.last = argsets[-1] + (10,) * (2 - len(argsets[-1]))

                Store = type("Store", (object,), {"describe": wrap(describe), "__init__": init})
                s = Store("fresh")

                @A()
                def gather():
                    ts = [s.describe.asynq(*a) for a in argsets]
                    try:
                        yield ts
                    except Boom:
                        pass
                    except Exception:
                        pass
                    return ts

                try:
                    ts = gather()
                except BaseException as e:
                    ts = None
                    problem = {"computation raised": repr(e)[:160]}
                res["evaluations"] += 1
                c["calls_in_flight_together_on_a_fresh_instance"] = c.get("calls_in_flight_together_on_a_fresh_instance", 0) + len(argsets)
                if ts is not None:
                    problem = None
                    for a, t in zip(argsets, ts):
                        full = a + (10,) * (2 - len(a))
                        should_fail = fails == "all" or (fails == "first" and full == s.first) or (fails == "last" and full == s.last)
                        if not t.is_computed():
                            problem = {"call": a, "observed": "still pending"}
                        elif should_fail:
                            e = t.error()
                            if not isinstance(e, Boom) or e.args != ("fresh",) + full:
                                problem = {"call": a, "expected": "Boom%r" % (("fresh",) + full,), "observed": repr(e if e is not None else t.value())[:160]}
                        elif t.error() is not None or t.value() != ("fresh",) + full:
                            problem = {"call": a, "expected": repr(("fresh",) + full), "observed": repr(t.error() or t.value())[:160]}
                        if problem:
                            break
                if problem and len(res["violations"]) < 8:
                    res["violations"].append(
                        {
                            "oracle": "call-did-not-end-with-its-own-bodys-outcome",
                            "mechanism": "call-did-not-end-with-its-own-bodys-outcome/" + deco,
                            "detail": dict(problem, decorator=deco, calls=repr(argsets), failing=fails),
                            "case": {"mode": "reborn", "cases": [0, 1]},
                        }
                    )
                res["nontrivial"].append(hash(("failpairs", deco, argsets, fails)) & 0xFFFFFFFFFFFF)
    DeduplicateDecorator.tasks.clear()
    asynq.scheduler.reset()


def cells():
    out = []
    for deco in DECOS:
        for body in BODIES:
            if body in ("reenter", "result") and deco in NO_REENTER:
                continue
            for binding in SUPPORTED[deco]:
                for pi in range(len(PATTERNS)):
                    out.append((deco, body, binding, pi))
    return out


def plan(tier, seed, build, scale):
    allc = cells()
    n = len(allc)
    k = 8
    per = (n + k - 1) // k
    units = [{"mode": "matrix", "cases": [a, min(n, a + per)]} for a in range(0, n, per)]
    units.append({"mode": "plain", "cases": [0, 1]})
    units.append({"mode": "twins", "cases": [0, 1]})
    units.append({"mode": "reborn", "cases": [0, 1]})
    nsh = len(DECOS) * len(BODIES) * (4 if tier == "quick" else 24)
    units.append({"mode": "shared_ns", "cases": [0, nsh // 2]})
    units.append({"mode": "shared_ns", "cases": [nsh // 2, nsh]})
    if tier == "thorough":
        nr = int(6000 * scale)
        per = nr // 8
        for a in range(0, nr, per):
            units.append({"mode": "random", "cases": [a, min(nr, a + per)]})
    return units


def run_unit(unit, progress):
    res = tl.new_result()
    c = res["counters"]
    if unit["mode"] == "plain":
        progress(0)
        classify_plain(res, c)
        res["evaluations"] = 3
        return res
    if unit["mode"] == "reborn":
        progress(0)
        run_reborn(res, c)
        return res
    if unit["mode"] == "twins":
        progress(0)
        run_twins(res, c)
        return res
    allc = cells()
    a, b = unit["cases"]
    if unit["mode"] == "shared_ns":
        combos = [(d, bd) for d in DECOS for bd in BODIES if not (bd in ("reenter", "result") and d in NO_REENTER)]
        for i in range(a, b):
            progress(i)
            deco, body = combos[i % len(combos)]
            viol, nconv = run_shared_namespace(deco, body, tl.case_seed(unit["seed"], ID, i) % 100000)
            res["evaluations"] += nconv
            c["requests_from_inside_the_running_body"] = c.get("requests_from_inside_the_running_body", 0) + REENTERED[0]
            REENTERED[0] = 0
            c["shared_namespace_runs"] = c.get("shared_namespace_runs", 0) + 1
            res["nontrivial"].append(hash(("shared", deco, body, i)) & 0xFFFFFFFFFFFF)
            for v in viol[:2]:
                if len(res["violations"]) < 10:
                    res["violations"].append(
                        {
                            "oracle": v[0],
                            "mechanism": "%s/%s/one-object-reached-through-several-bindings" % (v[0], deco),
                            "detail": {"decorator": deco, "body": body, "violation": v[1]},
                            "case": {"mode": "shared_ns", "cases": [i, i + 1]},
                        }
                    )
        return res
    for i in range(a, b):
        progress(i)
        if unit["mode"] == "matrix":
            deco, body, binding, pi = allc[i]
            argvals = None
        else:
            rnd = random.Random(tl.case_seed(unit["seed"], ID, i))
            deco, body, binding, pi = rnd.choice(allc)
            pool = [0, 1, -3, "s", None, (1, 2), 2.5, True]
            argvals = [rnd.choice(pool) for _ in range(6)]
            if deco in ("alru", "per_instance", "dedup"):
                argvals = [v for v in argvals]
        viol, nconv = run_cell(deco, body, binding, PATTERNS[pi], argvals)
        res["evaluations"] += nconv
        c["requests_from_inside_the_running_body"] = c.get("requests_from_inside_the_running_body", 0) + REENTERED[0]
        REENTERED[0] = 0
        c["cells"] = c.get("cells", 0) + 1
        c["cells_" + deco] = c.get("cells_" + deco, 0) + 1
        c["cells_binding_" + binding] = c.get("cells_binding_" + binding, 0) + 1
        res["nontrivial"].append(hash((deco, body, binding, pi, repr(argvals))) & 0xFFFFFFFFFFFF)
        for v in viol[:3]:
            if len(res["violations"]) < 10:
                res["violations"].append(
                    {
                        "oracle": v[0],
                        "mechanism": "%s/%s/%s" % (v[0], deco, binding.split("_")[0]),
                        "detail": {"decorator": deco, "body": body, "binding": binding, "args": repr(PATTERNS[pi]), "argvals": repr(argvals), "violation": v[1]},
                        "case": {"mode": unit["mode"], "cases": [i, i + 1]},
                    }
                )
        if len(res["samples"]) < 2 and i % 97 == 0:
            res["samples"].append({"decorator": deco, "body": body, "binding": binding, "args": repr(PATTERNS[pi]), "conventions_checked": nconv})
    return res


def reach(c, tier):
    out = []
    for k in ["cells_" + d for d in DECOS] + ["cells_binding_" + b for b in BINDINGS] + ["plain_callables", "shared_namespace_runs", "requests_from_inside_the_running_body", "lookalike_callables_compared", "calls_on_short_lived_instances"]:
        if not c.get(k):
            out.append("%s is zero" % k)
    if c.get("cells", 0) < len(cells()):
        out.append("matrix not enumerated completely")
    return out


def extra_coverage(c, tier):
    return {"exhaustive": True, "cells_in_matrix": len(cells())}
