"""C14 - collection helpers equal their built-in counterparts, in one batching round."""
import itertools
import random

from .. import tl
from ..lang import UserErr, exc_desc

ID = "C14"
LEVEL = "exploration"
RULE = (
    "seeded inputs for amap, afilter (also with None), afilterfalse, asorted, amax, amin, asift: sequences of length "
    "0-9 of distinguishable, mutually unorderable element objects (plus ints, bools/floats that compare equal, objects that are == but not identical, None), "
    "many duplicates and equal keys; passed as list, tuple, one-shot iterator or generator; key/predicate is an "
    "@asynq function that blocks on a harness batch item or not (in 30% of the inputs after first calling another, non-blocking async function synchronously), may return unorderable keys, give different verdicts to equal-looking elements (type- or identity-sensitive), or raise for one element; "
    "reverse on/off; varargs vs single-iterable call forms; wrong call forms. Oracle: the builtin (map, filter, "
    "itertools.filterfalse, sorted, max, min, a two-way partition) applied to the same data with the synchronous twin - "
    "same result with element IDENTITY compared, or the same exception type; with a blocking key exactly one flush per "
    "helper invocation. aretry: every (k, max_tries) in 0..5 x 1..5, listed / unlisted / tuple-of-classes exceptions, x body kind {plain function, generator, raising after a batch flush, async_proxy raising while the future is created, async_proxy returning a failing task, failure coming from an awaited child} x {sync call, .asynq().value(), yielded from a task}: "
    "executions = min(k+1, max_tries), unlisted re-raised at once. distinct = (helper, input hash); non-trivial = at "
    "least 2 elements."
)
RULE += (
    " Keys need 1-3 requests in a row, and the keys of some elements (last, first, a random subset) answer at "
    "once: the number of flushes must equal the number of rounds. The key / predicate is called exactly once "
    "per element (call counter)."
)
ASSUMPTIONS = ["key/predicate twins are pure, so the builtin's result is well defined"]
UNIT_TIMEOUT = {"quick": 200, "thorough": 2400}

HELPERS = ["amap", "afilter", "afilter_none", "afilterfalse", "asorted", "asorted_nokey", "amax", "amin", "amax_nokey", "amin_nokey", "asift", "amax_varargs", "amin_varargs", "badcall"]


class Elem(object):
    """Distinguishable and unorderable."""

    __slots__ = ("ident", "k")

    def __init__(self, ident, k):
        self.ident = ident
        self.k = k

    def __repr__(self):
        return "E%d(k=%r)" % (self.ident, self.k)


class EqElem(Elem):
    """Distinguishable by identity, but EQUAL (==) to every element with the same k."""

    __slots__ = ()

    def __eq__(self, other):
        return isinstance(other, Elem) and other.k == self.k

    def __ne__(self, other):
        return not self.__eq__(other)

    def __hash__(self):
        return hash(self.k)


def make_input(rnd):
    n = rnd.choice([0, 0, 1, 1, 2, 2, 3, 3, 4, 5, 6, 7, 9])
    style = rnd.choice(["elem", "elem", "eqelem", "int", "mixednum", "withnone"])
    data = []
    for i in range(n):
        if style == "elem":
            data.append(Elem(i, rnd.choice([0, 1, 1, 2, 2, 3])))
        elif style == "eqelem":
            data.append(EqElem(i, rnd.choice([0, 1, 1, 2])))
        elif style == "int":
            data.append(rnd.choice([0, 1, 2, 3, 3, 5]))
        elif style == "mixednum":
            data.append(rnd.choice([0, 1, 1.0, True, False, 0.0, 2]))
        else:
            data.append(rnd.choice([None, 0, 1, 2, None]))
    keymode = rnd.choice(["k", "k", "k", "neg", "const", "unorderable", "raise_one", "raise_two", "truthy", "typed", "typed"])
    return data, style, keymode


class KeyErrA(Exception):
    pass


class KeyErrB(Exception):
    pass


def twin_factory(keymode, data, rnd):
    bad = rnd.randrange(len(data)) if data else 0
    bad2 = rnd.randrange(len(data)) if data else 0

    def twin(x):
        base = x.k if isinstance(x, Elem) else x
        if keymode == "k":
            return base
        if keymode == "neg":
            return -base if isinstance(base, (int, float)) and base is not None else base
        if keymode == "const":
            return 7
        if keymode == "truthy":
            return bool(base)
        if keymode == "typed":
            # equal-looking elements get different verdicts: by exact type for numbers, by identity for objects
            if isinstance(x, Elem):
                return x.ident % 2
            return 1 if type(x) is int else 0
        if keymode == "unorderable":
            return "s" if (base is not None and base == 1) else base
        if keymode == "raise_one":
            if data and x is data[bad]:
                raise UserErr(("key", bad))
            return base
        if keymode == "raise_two":
            # two elements are bad in different ways: the builtins stop at the first of them (in input order)
            if data and x is data[bad]:
                raise KeyErrA(bad)
            if data and x is data[bad2]:
                raise KeyErrB(bad2)
            return 7
        return base

    return twin


def as_iterable(data, kind):
    if kind == "list":
        return list(data)
    if kind == "tuple":
        return tuple(data)
    if kind == "iter":
        return iter(list(data))
    return (x for x in list(data))


def outcome(fn):
    try:
        return ("val", fn())
    except BaseException as e:
        return ("exc", type(e).__name__)


def same(a, b):
    """Structural equality with identity on leaves."""
    if type(a) is not type(b):
        return False
    if isinstance(a, (list, tuple)):
        return len(a) == len(b) and all(same(x, y) for x, y in zip(a, b))
    return a is b or (not isinstance(a, Elem) and a == b and type(a) is type(b))


def plan(tier, seed, build, scale):
    n = int((6000 if tier == "quick" else 450000) * scale)
    per = max(1, n // (8 if tier == "quick" else 64))
    units = [{"mode": "aretry", "cases": [0, 1]}]
    a = 0
    while a < n:
        units.append({"mode": "helpers", "cases": [a, min(n, a + per)]})
        a += per
    return units


def run_aretry(res):
    import asynq
    from asynq import asynq as A
    from asynq.tools import aretry

    c = res["counters"]

    class E1(Exception):
        pass

    class E2(Exception):
        pass

    class Other(Exception):
        pass

    from asynq import async_proxy, ConstFuture
    from asynq.batching import DebugBatchItem

    @A()
    def yielder(f, a, k):
        v = yield f.asynq(*a, **k)
        return v

    n = 0
    for listed in ("single", "tuple"):
        for k in range(0, 6):
            for max_tries in range(1, 6):
                for raised in ("listed", "listed2", "other"):
                    if raised == "listed2" and listed == "single":
                        continue
                    for body in ("plain", "generator", "after_batch", "proxy_sync_raise", "proxy_failed_future", "child_raises"):
                        runs = [0]
                        exc_cls = E1 if listed == "single" else (E1, E2)
                        which = {"listed": E1, "listed2": E2, "other": Other}[raised]

                        @A()
                        def child(i):
                            yield None
                            raise which(i)

                        if body == "plain":
                            # ordinary function body: raises when the task is run
                            @A()
                            def inner(x, y=1):
                                runs[0] += 1
                                if runs[0] <= k:
                                    raise which(runs[0])
                                return ("ok", x, y)

                        elif body == "generator":
                            @A()
                            def inner(x, y=1):
                                runs[0] += 1
                                yield None
                                if runs[0] <= k:
                                    raise which(runs[0])
                                return ("ok", x, y)

                        elif body == "after_batch":
                            # raises after having been suspended for a batch flush
                            @A()
                            def inner(x, y=1):
                                runs[0] += 1
                                yield DebugBatchItem("c14retry", runs[0])
                                if runs[0] <= k:
                                    raise which(runs[0])
                                return ("ok", x, y)

                        elif body == "proxy_sync_raise":
                            # an async_proxy body fails while the attempt's future is being CREATED
                            @async_proxy()
                            def inner(x, y=1):
                                runs[0] += 1
                                if runs[0] <= k:
                                    raise which(runs[0])
                                return ConstFuture(("ok", x, y))

                        elif body == "proxy_failed_future":
                            # an async_proxy body hands back a task that fails when awaited
                            @async_proxy()
                            def inner(x, y=1):
                                runs[0] += 1
                                if runs[0] <= k:
                                    return child.asynq(runs[0])
                                return ConstFuture(("ok", x, y))

                        else:
                            # the failure comes out of a task the body awaits
                            @A()
                            def inner(x, y=1):
                                runs[0] += 1
                                if runs[0] <= k:
                                    yield child.asynq(runs[0])
                                return ("ok", x, y)

                        fn = aretry(exc_cls, max_tries=max_tries, sleep=0)(inner)
                        for how in ("sync", "asynq", "yielded"):
                            runs[0] = 0
                            call = {
                                "sync": lambda: fn(3, y=4),
                                "asynq": lambda: fn.asynq(3, y=4).value(),
                                "yielded": lambda: yielder(fn, (3,), {"y": 4}),
                            }[how]
                            out = outcome(call)
                            if raised == "other" and k > 0:
                                want_runs, want = 1, ("exc", "Other")
                            else:
                                want_runs = min(k + 1, max_tries)
                                want = ("val", ("ok", 3, 4)) if k < max_tries else ("exc", which.__name__)
                            n += 1
                            res["evaluations"] += 1
                            c["aretry_body_" + body] = c.get("aretry_body_" + body, 0) + 1
                            res["nontrivial"].append(hash(("aretry", listed, k, max_tries, raised, how, body)) & 0xFFFFFFFFFF)
                            if (runs[0] != want_runs or out != want) and len(res["violations"]) < 8:
                                res["violations"].append(
                                    {
                                        "oracle": "aretry",
                                        "mechanism": "aretry/" + body,
                                        "detail": {"k": k, "max_tries": max_tries, "raised": raised, "listed": listed, "how": how, "body": body, "executions": runs[0], "expected_executions": want_runs, "outcome": out, "expected": want},
                                        "case": {"mode": "aretry", "cases": [0, 1]},
                                    }
                                )
    c["aretry_cases"] = n
    res["samples"].append({"aretry": "all (k, max_tries) in 0..5 x 1..5, listed/unlisted, single class / tuple, 6 body kinds, sync / .asynq().value() / yielded"})


def run_unit(unit, progress):
    import asynq
    from asynq import asynq as A
    from asynq import tools as T
    from .. import harness

    res = tl.new_result()
    c = res["counters"]
    if unit["mode"] == "aretry":
        progress(0)
        run_aretry(res)
        return res
    a, b = unit["cases"]
    for i in range(a, b):
        progress(i)
        cs = tl.case_seed(unit["seed"], ID, i)
        rnd = random.Random(cs)
        data, style, keymode = make_input(rnd)
        helper = HELPERS[i % len(HELPERS)]
        itkind = rnd.choice(["list", "tuple", "iter", "gen"])
        blocking = rnd.random() < 0.5
        reverse = rnd.random() < 0.5
        twin = twin_factory(keymode, data, rnd)
        asynq.scheduler.reset()
        rt = harness.HarnessRT({"nodes": [], "kinds": 1})
        ctr = itertools.count()

        presync = rnd.random() < 0.3
        hops = rnd.choice([1, 1, 2, 3])
        call_ctr = itertools.count()
        nel = len(data)
        easy = rnd.choice([set(), set(), {nel - 1}, {0}, {nel - 1, 0}, set(j for j in range(nel) if rnd.random() < 0.4)])
        if nel and len(easy & set(range(nel))) == nel:
            easy = set()

        @A()
        def normalise(x):
            return x

        fallback = hops == 1 and rnd.random() < 0.35
        missing = set(j for j in range(nel) if rnd.random() < 0.5)

        @A()
        def lookup_miss(x):
            raise LookupError("miss")

        @A()
        def fetch():
            return (yield harness.HItem(rt, 0, "k%d" % next(ctr), ("c14", next(ctr))))

        @A()
        def key(x):
            if presync:
                # an ordinary synchronous call of another (non-blocking) async function before the request
                x = normalise(x)
                c["keys_making_a_sync_call_first"] = c.get("keys_making_a_sync_call_first", 0) + 1
            idx = next(call_ctr)
            if blocking and fallback and idx not in easy:
                # a first source that fails at once for some elements (a cache miss raised as an exception), caught,
                # then the real request made through another task: all real requests still belong to ONE round
                if idx in missing:
                    try:
                        yield lookup_miss.asynq(x)
                    except LookupError:
                        c["keys_falling_back_after_a_failed_first_source"] = c.get("keys_falling_back_after_a_failed_first_source", 0) + 1
                yield fetch.asynq()
                return twin(x)
            if blocking and idx not in easy:
                # (the key of some elements answers at once - a None element, a cached row - while the others
                # need one, two or three requests one after another)
                for _hop in range(hops):
                    yield harness.HItem(rt, 0, "k%d" % next(ctr), ("c14", next(ctr)))
            return twin(x)

        it = lambda: as_iterable(data, itkind)
        if helper == "amap":
            got = outcome(lambda: T.amap(key, it()))
            want = outcome(lambda: list(map(twin, it())))
        elif helper == "afilter":
            got = outcome(lambda: T.afilter(key, it()))
            want = outcome(lambda: list(filter(twin, it())))
        elif helper == "afilter_none":
            got = outcome(lambda: T.afilter(None, it()))
            want = outcome(lambda: list(filter(None, it())))
            blocking = False
        elif helper == "afilterfalse":
            got = outcome(lambda: T.afilterfalse(key, it()))
            want = outcome(lambda: list(itertools.filterfalse(twin, it())))
        elif helper == "asorted":
            got = outcome(lambda: T.asorted(it(), key=key, reverse=reverse))
            want = outcome(lambda: sorted(it(), key=twin, reverse=reverse))
        elif helper == "asorted_nokey":
            got = outcome(lambda: T.asorted(it(), reverse=reverse))
            want = outcome(lambda: sorted(it(), reverse=reverse))
            blocking = False
        elif helper in ("amax", "amin"):
            f, g = (T.amax, max) if helper == "amax" else (T.amin, min)
            got = outcome(lambda: f(it(), key=key))
            want = outcome(lambda: g(it(), key=twin))
        elif helper in ("amax_nokey", "amin_nokey"):
            f, g = (T.amax, max) if helper == "amax_nokey" else (T.amin, min)
            got = outcome(lambda: f(it()))
            want = outcome(lambda: g(it()))
            blocking = False
        elif helper in ("amax_varargs", "amin_varargs"):
            f, g = (T.amax, max) if helper == "amax_varargs" else (T.amin, min)
            if len(data) >= 2:
                got = outcome(lambda: f(*data, key=key))
                want = outcome(lambda: g(*data, key=twin))
            else:
                got = outcome(lambda: f(key=key))
                want = outcome(lambda: g(key=twin))
                blocking = False
        elif helper == "asift":
            got = outcome(lambda: T.asift(key, it()))

            def part():
                yes, no = [], []
                for x in it():
                    (yes if twin(x) else no).append(x)
                return (yes, no)

            want = outcome(part)
        else:  # badcall: wrong call forms must raise like the builtin
            which = rnd.choice(["amax_kw", "amin_kw", "amax_scalar"])
            blocking = False
            if which == "amax_kw":
                got = outcome(lambda: T.amax(it(), key=key, bogus=1))
                want = outcome(lambda: max(it(), key=twin, bogus=1))
            elif which == "amin_kw":
                got = outcome(lambda: T.amin(it(), bogus=1))
                want = outcome(lambda: min(it(), bogus=1))
            else:
                got = outcome(lambda: T.amax(5, key=key))
                want = outcome(lambda: max(5, key=twin))
        res["evaluations"] += 1
        c["inputs_" + helper] = c.get("inputs_" + helper, 0) + 1
        c["iterable_" + itkind] = c.get("iterable_" + itkind, 0) + 1
        flushes = sum(1 for e in rt.log if e[0] == "flush_body")
        ok = got[0] == want[0] and (same(got[1], want[1]) if got[0] == "val" else got[1] == want[1])
        if not ok and keymode == "raise_one" and got == ("exc", "UserErr") and want[0] == "exc":
            # the input is bad in two ways (one key call raises AND the keys are unorderable); the helper
            # issues every key call together, so the key's own exception may legitimately surface first
            ok = True
            c["inputs_bad_in_two_ways_accepted"] = c.get("inputs_bad_in_two_ways_accepted", 0) + 1
        if want[0] == "exc":
            c["inputs_where_builtin_raises"] = c.get("inputs_where_builtin_raises", 0) + 1
        keys_here = []
        try:
            keys_here = [twin(x) for x in data]
        except BaseException:
            pass
        if len(keys_here) != len(set(map(repr, keys_here))):
            c["inputs_with_equal_keys"] = c.get("inputs_with_equal_keys", 0) + 1
        if len(data) >= 2:
            res["nontrivial"].append(hash((helper, itkind, repr(data), keymode, reverse)) & 0xFFFFFFFFFFFF)
        viol = []
        if not ok:
            viol.append(("differs-from-builtin", {"expected": repr(want)[:300], "observed": repr(got)[:300]}))
        ncalls = next(call_ctr)
        if ok and want[0] == "val" and helper in ("amap", "afilter", "afilterfalse", "asorted", "amax", "amin", "asift"):
            # like the builtin, the helper asks the key / predicate once per element (a key that counts, samples or
            # remembers what it has seen is an "asynchronous key/predicate" as well)
            c["key_call_count_checks"] = c.get("key_call_count_checks", 0) + 1
            if ncalls != len(data):
                viol.append(("key-called-more-or-less-than-once-per-element", {"elements": len(data), "key_calls": ncalls}))
        if blocking and want[0] == "val" and len(data) >= 1 and helper not in ("badcall",):
            c["flush_count_checks"] = c.get("flush_count_checks", 0) + 1
            if hops > 1:
                c["flush_count_checks_with_keys_needing_several_requests"] = c.get("flush_count_checks_with_keys_needing_several_requests", 0) + 1
            if easy & set(range(nel)):
                c["flush_count_checks_with_some_keys_answering_at_once"] = c.get("flush_count_checks_with_some_keys_answering_at_once", 0) + 1
            if flushes != hops:
                viol.append(("not-one-flush-per-batching-round", {"flushes": flushes, "rounds": hops, "elements": len(data), "elements_whose_key_does_not_block": sorted(easy & set(range(nel)))}))
        for v in viol:
            if len(res["violations"]) < 8:
                res["violations"].append(
                    {
                        "oracle": v[0],
                        "mechanism": "%s/%s%s" % (v[0], helper.split("_")[0], "/one-shot-iterable" if itkind in ("iter", "gen") and helper == "asift" else ""),
                        "detail": {"helper": helper, "iterable": itkind, "data": repr(data), "keymode": keymode, "reverse": reverse, "blocking_key": blocking, "violation": v[1]},
                        "case": {"cases": [i, i + 1]},
                    }
                )
        if len(res["samples"]) < 2 and len(data) >= 3:
            res["samples"].append({"helper": helper, "iterable": itkind, "data": repr(data), "keymode": keymode, "reverse": reverse, "expected": repr(want)[:200]})
    return res


def reach(c, tier):
    out = []
    for k in ["inputs_" + h for h in HELPERS] + ["iterable_list", "iterable_tuple", "iterable_iter", "iterable_gen", "inputs_with_equal_keys", "flush_count_checks", "inputs_where_builtin_raises", "aretry_cases"]:
        if not c.get(k):
            out.append("%s is zero" % k)
    return out
