"""C10 - a future is completed at most once and reports one consistent outcome."""
import itertools
import os
import random

from .. import tl
from ..lang import FalsyUserErr, UserErr, exc_desc

ID = "C10"
LEVEL = "exploration"
RULE = (
    "operation sequences over {value, error, call, is_computed, set_value, set_error, reset_unsafe, subscribe a "
    "well-behaved callback, subscribe a raising callback} applied to every future kind {Future(ok provider), "
    "Future(raising provider), Future(provider raising FutureIsAlreadyComputed about another future), ConstFuture, ErrorFuture, AsyncTask returning / raising / blocked on a batch item / failed by a context that cannot be re-activated when the scheduler wakes it, "
    "batch with succeeding / raising flush, batch item set / errored / left unset}: ALL sequences up to length 4 "
    "(thorough: 5) plus seeded random sequences up to length 15, plus scheduler-driven scenarios in which one lazily computed future is listed twice in a yield or awaited by a parent and its child (10 shapes x ok/raising provider), on both builds. Each operation's result or exception "
    "(type, and identity of error instances) is compared with an explicit reference state machine {uncomputed, value, "
    "error} that also predicts provider/body execution counts and, per completion, exactly one notification per "
    "subscriber observing is_computed() and the final outcome. distinct = (kind, sequence); non-trivial = the "
    "sequence contains a completion and at least one later observation."
)
RULE += (
    " A second, subscriber-centred alphabet adds callbacks that unsubscribe THEMSELVES while being notified "
    "(well-behaved / raising), enumerated to the same lengths. 12 more scheduler scenarios put a TASK under "
    "observation whose awaited batch is completed behind the scheduler's back in the same traversal (nested "
    "sync call / item.value() / batch.flush() x 4 yield orders): computed after value(), the same outcome from "
    "value(), value() and call, one notification. Item kind added: an item that the flush answers before the "
    "flush body raises (its first value() is its value, not the flush error). The task scenarios also cancel "
    "the awaited batch instead of flushing it, each with and without a second, smaller pending batch."
)
ASSUMPTIONS = [
    "the first error()/value() that triggers a failing lazy Future may raise or return the error; only behaviour from then on is fixed by the statement",
    "after reset_unsafe() on tasks, batches and items only explicit set_value/set_error are modelled (re-running a consumed generator or a flushed batch is outside the statement)",
]
UNIT_TIMEOUT = {"quick": 300, "thorough": 2400}

OPS = ["value", "error", "call", "is_computed", "set_value", "set_error", "reset", "sub_ok", "sub_raise"]
# the subscriber-centred alphabet adds a callback that unsubscribes itself while being notified (and one that does so
# and raises): everybody else subscribed at that moment must still be notified exactly once
OPS_SUB = ["value", "error", "set_value", "set_error", "reset", "sub_ok", "sub_raise", "sub_once", "sub_once_raise"]
OPS_ALL = OPS + ["sub_once", "sub_once_raise"]
KINDS = [
    "future_ok",
    "future_raise",
    "future_raise_faic",
    "const",
    "errfut",
    "task_ok",
    "task_raise",
    "task_item",
    "task_ctx_resume_fails",
    "batch_ok",
    "batch_raise",
    "item_ok",
    "item_err",
    "item_unset",
    "item_ok_flush_raises_after",
    "batch_empty_ok",
    "batch_empty_raise",
]


def plan(tier, seed, build, scale):
    units = []
    n = 4 if tier == "quick" else 5
    for k in KINDS:
        deep = tier == "thorough" and k in ("future_ok", "future_raise", "task_item", "item_ok")
        units.append({"mode": "exhaustive", "kind": k, "maxlen": n + (1 if deep else 0), "cases": [0, 1], "timeout": 2400, "case_timeout": 150})
        if k not in ("const", "errfut"):
            units.append({"mode": "exhaustive", "alphabet": "sub", "kind": k, "maxlen": n + (1 if deep else 0), "cases": [0, 1], "timeout": 2400, "case_timeout": 150})
    units.append({"mode": "scheduler", "cases": [0, 1]})
    nr = int((3000 if tier == "quick" else 60000) * scale)
    per = max(1, nr // 8)
    a = 0
    while a < nr:
        units.append({"mode": "random", "cases": [a, min(nr, a + per)]})
        a += per
    return units


class Model(object):
    """Reference state machine."""

    def __init__(self, kind):
        self.kind = kind
        self.computed = kind in ("const", "errfut")
        self.out = None
        if kind == "const":
            self.out = ("val", ("const", 5))
        elif kind == "errfut":
            self.out = ("exc", ("UserErr", ("errfut",)))
        self.computes = 0
        self.subs = []
        self.was_reset = False
        self.expected_notes = []  # list of (sub id, outcome)
        self.sinking = kind in ("const", "errfut")
        self.first_lazy_failure = False

    def natural(self):
        """Outcome of running the underlying computation now."""
        self.computes += 1
        k = self.kind
        n = self.computes
        if k == "future_ok":
            return ("val", ("tok", n))
        if k == "future_raise":
            return ("exc", ("UserErr", ("prov", n)))
        if k == "future_raise_faic":
            return ("exc", "FutureIsAlreadyComputed")
        if k == "task_ok":
            return ("val", ("task", 7))
        if k == "task_raise":
            return ("exc", ("UserErr", ("task",)))
        if k == "task_item":
            return ("val", ("task", ("iv", 0)))
        if k == "task_ctx_resume_fails":
            return ("exc", ("UserErr", ("resume",)))
        if k in ("batch_ok", "batch_empty_ok"):
            return ("val", None)
        if k in ("batch_raise", "batch_empty_raise"):
            return ("exc", ("UserErr", ("flush",)))
        if k in ("item_ok", "item_ok_flush_raises_after"):
            return ("val", ("iv", 0))
        if k == "item_err":
            return ("exc", ("UserErr", ("itemerr",)))
        if k == "item_unset":
            return ("exc", ("Unset",))
        raise AssertionError(k)

    def complete(self, out):
        self.computed = True
        self.out = out
        for sid, _kind in list(self.subs):
            self.expected_notes.append((sid, out))
            if _kind.startswith("sub_once"):
                self.subs.remove((sid, _kind))

    def can_compute(self):
        if self.kind.startswith("future"):
            return True
        return not self.was_reset


def make_object(kind, env):
    import asynq
    from asynq import ConstFuture, ErrorFuture, Future
    from asynq import asynq as A
    from .. import harness

    rt = env["rt"]
    if kind == "future_ok":
        def prov():
            env["computes"] += 1
            return ("tok", env["computes"])

        return Future(prov)
    if kind == "future_raise":
        def prov():
            env["computes"] += 1
            raise UserErr(("prov", env["computes"]))

        return Future(prov)
    if kind == "future_raise_faic":
        def prov():
            # the provider trips over ANOTHER future that is already complete
            env["computes"] += 1
            ConstFuture(1).set_value(2)

        return Future(prov)
    if kind == "const":
        return ConstFuture(("const", 5))
    if kind == "errfut":
        return ErrorFuture(UserErr(("errfut",)))
    if kind == "task_ok":
        @A()
        def f():
            env["computes"] += 1
            return ("task", 7)

        return f.asynq()
    if kind == "task_raise":
        @A()
        def f():
            env["computes"] += 1
            raise UserErr(("task",))

        return f.asynq()
    if kind == "task_item":
        @A()
        def f():
            env["computes"] += 1
            v = yield C10Item(rt, "ok")
            return ("task", v)

        return f.asynq()
    if kind == "task_ctx_resume_fails":
        # a task suspended inside a context that cannot be re-activated when the scheduler wakes the task: the
        # context's error completes the task - once
        from asynq import AsyncContext

        class Lease(AsyncContext):
            def __init__(self):
                self.n = 0

            def resume(self):
                self.n += 1
                if self.n > 1:
                    raise UserErr(("resume",))

            def pause(self):
                pass

        @A()
        def f():
            env["computes"] += 1
            with Lease():
                v = yield C10Item(rt, "ok")
            return ("task", v)

        return f.asynq()
    if kind in ("batch_empty_ok", "batch_empty_raise"):
        # a batch nobody added anything to
        C10Item(rt, "ok")  # (defines the classes)
        b = _classes["batch"](rt)
        b.mode = "raise" if kind == "batch_empty_raise" else "ok"
        b.env = env
        return b
    if kind in ("batch_ok", "batch_raise"):
        it = C10Item(rt, "ok")
        C10Item(rt, "ok")
        b = it.batch
        b.mode = "raise" if kind == "batch_raise" else "ok"
        b.env = env
        return b
    if kind in ("item_ok", "item_err", "item_unset", "item_ok_flush_raises_after"):
        C10Item(rt, "ok")
        it = C10Item(rt, {"item_ok": "ok", "item_err": "err", "item_unset": "unset", "item_ok_flush_raises_after": "ok"}[kind])
        it.batch.env = env
        it.batch.count_item = it
        if kind == "item_ok_flush_raises_after":
            # a partial answer: the flush serves this item and then fails
            it.batch.mode = "raise_after"
        return it
    raise AssertionError(kind)


_classes = {}


def C10Item(rt, mode):
    from .. import harness
    from asynq import BatchBase, BatchItemBase

    if "item" not in _classes:
        class Batch(BatchBase):
            def __init__(self, rt):
                BatchBase.__init__(self)
                self.rt = rt
                self.mode = "ok"
                self.env = None
                self.count_item = None

            def _try_switch_active_batch(self):
                if self.rt.active_batches.get("c10") is self:
                    self.rt.active_batches["c10"] = None

            def _flush(self):
                if self.env is not None:
                    self.env["computes"] += 1
                if self.mode == "raise":
                    raise UserErr(("flush",))
                for it in self.items:
                    if it.is_computed():
                        continue
                    if it.mode == "ok":
                        it.set_value(("iv", 0))
                    elif it.mode == "err":
                        it.set_error(UserErr(("itemerr",)))
                if self.mode == "raise_after":
                    raise UserErr(("flush-after-answering",))

        class Item(BatchItemBase):
            def __init__(self, rt, mode):
                b = rt.active_batches.get("c10")
                if b is None:
                    b = Batch(rt)
                    rt.active_batches["c10"] = b
                BatchItemBase.__init__(self, b)
                self.mode = mode

        _classes["item"] = Item
        _classes["batch"] = Batch
    return _classes["item"](rt, mode)


def desc(x):
    if type(x).__name__ == "FutureIsAlreadyComputed":
        return "FutureIsAlreadyComputed"
    if isinstance(x, BaseException):
        return exc_desc(x)
    return x


def run_sequence(kind, seq):
    """Returns (violations, nontrivial)."""
    import asynq
    from asynq import FutureIsAlreadyComputed
    from .. import harness

    asynq.scheduler.reset()
    env = {"computes": 0, "rt": harness.HarnessRT({"nodes": [], "kinds": 1})}
    obj = make_object(kind, env)
    m = Model(kind)
    notes = []
    err_instances = {}
    viol = []
    sub_ids = itertools.count()
    completions = 0
    observed_after = False

    def mk_sub(sid, raising, once=False):
        def cb(f):
            if once:
                f.on_computed.unsubscribe(cb)
            try:
                comp = f.is_computed()
                e = f.error() if comp else None
                if not comp:
                    out = ("uncomputed",)
                elif e is not None:
                    out = ("exc", desc(e))
                else:
                    out = ("val", f.value())
            except BaseException as ex:  # the callback itself must be able to look
                out = ("callback-observation-raised", exc_desc(ex))
            notes.append((sid, out))
            if raising:
                raise UserErr(("subscriber", sid))

        return cb

    faic_seen = []

    def check_identity_faic(e):
        # a stored FutureIsAlreadyComputed outcome must keep being the same object
        if kind == "future_raise_faic" and m.computed and m.out and m.out[0] == "exc":
            if faic_seen and faic_seen[0] is not e:
                viol.append(("error-instance-changed", "FutureIsAlreadyComputed"))
            faic_seen.append(e)

    def check_identity(e):
        d = exc_desc(e)
        if d in err_instances and err_instances[d] is not e:
            viol.append(("error-instance-changed", d))
        err_instances.setdefault(d, e)

    for step, op in enumerate(seq):
        # ---- expected
        exp = None
        alt = None
        if op == "is_computed":
            exp = ("ret", m.computed)
        elif op in ("value", "call", "error"):
            if not m.computed:
                if not m.can_compute():
                    break  # unmodelled: re-running a consumed computation after reset_unsafe()
                out = m.natural()
                if kind in ("future_raise", "future_raise_faic"):
                    m.complete(out)
                    # the triggering call may raise (value always raises; error() may raise or return)
                    exp = ("raise", out[1])
                    if op == "error":
                        alt = ("ret", out[1])
                    completions += 1
                else:
                    m.complete(out)
                    completions += 1
            if exp is None:
                if m.out[0] == "val":
                    exp = ("ret", m.out[1] if op != "error" else None)
                else:
                    exp = ("raise", m.out[1]) if op != "error" else ("ret", m.out[1])
            if completions:
                observed_after = True
        elif op == "set_value":
            if m.computed:
                exp = ("raise", "FutureIsAlreadyComputed")
            else:
                m.complete(("val", ("set", step)))
                completions += 1
                exp = ("ret", None)
        elif op == "set_error":
            if m.computed:
                exp = ("raise", "FutureIsAlreadyComputed")
            else:
                m.complete(("exc", ("UserErr", ("set", step))))
                completions += 1
                exp = ("ret", None)
        elif op == "reset":
            m.computed = False
            m.out = None
            m.was_reset = True
            del faic_seen[:]
            err_instances.clear()
            exp = ("ret", None)
        elif op in ("sub_ok", "sub_raise", "sub_once", "sub_once_raise"):
            sid = next(sub_ids)
            if not m.sinking:
                m.subs.append((sid, op))
            exp = ("ret", None)
        # ---- actual
        try:
            if op == "is_computed":
                got = ("ret", obj.is_computed())
            elif op == "value":
                got = ("ret", obj.value())
            elif op == "call":
                got = ("ret", obj())
            elif op == "error":
                e = obj.error()
                if e is not None:
                    check_identity(e)
                got = ("ret", desc(e))
            elif op == "set_value":
                got = ("ret", obj.set_value(("set", step)))
            elif op == "set_error":
                got = ("ret", obj.set_error((FalsyUserErr if step % 2 else UserErr)(("set", step))))
            elif op == "reset":
                got = ("ret", obj.reset_unsafe())
            else:
                obj.on_computed.subscribe(mk_sub(sid, op.endswith("_raise"), op.startswith("sub_once")))
                got = ("ret", None)
        except FutureIsAlreadyComputed as e:
            if op in ("value", "call"):
                check_identity_faic(e)
            got = ("raise", "FutureIsAlreadyComputed")
        except BaseException as e:
            check_identity(e)
            got = ("raise", exc_desc(e))
        if got != exp and got != alt:
            viol.append(("operation-result", {"step": step, "op": op, "expected": exp, "observed": got}))
            break
    else:
        # end-state agreement
        try:
            if obj.is_computed() != m.computed:
                viol.append(("final-is_computed", {"expected": m.computed}))
        except BaseException as e:
            viol.append(("final-is_computed-raised", exc_desc(e)))
    if not viol:
        if sorted(notes, key=repr) != sorted(m.expected_notes, key=repr):
            viol.append(("subscriber-notifications", {"expected": sorted(m.expected_notes, key=repr), "observed": sorted(notes, key=repr)}))
        if env["computes"] != m.computes and kind not in ("batch_ok", "batch_raise", "batch_empty_ok", "batch_empty_raise", "item_ok", "item_err", "item_unset", "item_ok_flush_raises_after", "task_item"):
            viol.append(("computation-run-count", {"expected": m.computes, "observed": env["computes"]}))
        if kind in ("batch_ok", "batch_raise", "batch_empty_ok", "batch_empty_raise", "item_ok", "item_err", "item_unset", "item_ok_flush_raises_after") and env["computes"] > 1:
            viol.append(("computation-run-count", {"expected": "<=1 flush body", "observed": env["computes"]}))
    return viol, bool(completions and observed_after), len(notes)


def outcome_of(fn):
    try:
        return ("val", fn())
    except BaseException as e:
        return ("exc", exc_desc(e))


def run_scheduler_scenarios(res, c):
    """The same lazily computed future reached several times by the scheduler (listed twice in one yield,
    awaited by a parent and by its child, in every order and container): its provider runs once and every
    awaiter sees the one outcome."""
    import asynq
    from asynq import ConstFuture, Future
    from asynq import asynq as A
    from asynq.decorators import lazy
    from .. import harness

    def scenarios():
        for raising in (False, True):
            for shape in ("f,f", "[f,f,f]", "{a:f,b:f}", "(f,[f])", "child-then-f", "f-then-child", "child,child", "f,child,f", "lazy-decorator", "blocked-child"):
                yield raising, shape

    for raising, shape in scenarios():
        asynq.scheduler.reset()
        rt = harness.HarnessRT({"nodes": [], "kinds": 1})
        calls = []

        def prov():
            calls.append(1)
            if raising:
                raise UserErr(("prov", len(calls)))
            return ("tok", len(calls))

        f = Future(prov)
        if shape == "lazy-decorator":
            f = lazy(prov)()
        seen = []

        @A()
        def child(block=False):
            if block:
                yield harness.HItem(rt, 0, "b", ("c10s", 0))
            try:
                v = yield f
                seen.append(("val", v))
            except UserErr as e:
                seen.append(("exc", e))
            return 1

        @A()
        def parent():
            try:
                if shape in ("f,f", "lazy-decorator"):
                    v = yield f, f
                elif shape == "[f,f,f]":
                    v = yield [f, f, f]
                elif shape == "{a:f,b:f}":
                    v = yield {"a": f, "b": f}
                elif shape == "(f,[f])":
                    v = yield (f, [f])
                elif shape == "child-then-f":
                    v = yield child.asynq(), f
                elif shape == "f-then-child":
                    v = yield f, child.asynq()
                elif shape == "child,child":
                    v = yield child.asynq(), child.asynq()
                elif shape == "f,child,f":
                    v = yield f, child.asynq(), f
                else:
                    v = yield child.asynq(True), f, child.asynq()
                if shape != "child,child":  # there the parent does not await f itself
                    seen.append(("val", v))
            except UserErr as e:
                seen.append(("exc", e))
            return 0

        rt.attach()
        try:
            out = parent()
            crashed = None
        except BaseException as e:
            crashed = e
        finally:
            rt.detach()
        res["evaluations"] += 1
        res["nontrivial"].append(hash(("sched", raising, shape)) & 0xFFFFFFFFFFFF)
        c["scheduler_scenarios"] = c.get("scheduler_scenarios", 0) + 1
        viol = []
        if crashed is not None:
            viol.append(("scheduler-scenario-crashed", exc_desc(crashed)))
        if len(calls) != 1:
            viol.append(("computation-run-count", {"provider_calls": len(calls), "expected": 1}))
        excs = [x[1] for x in seen if x[0] == "exc"]
        if raising:
            if len(excs) != len(seen) or any(e is not excs[0] for e in excs):
                viol.append(("awaiters-saw-different-outcomes", {"seen": repr(seen)[:200]}))
            if f.is_computed() and f.error() is not (excs[0] if excs else None):
                viol.append(("stored-error-differs-from-delivered", {}))
        elif excs:
            viol.append(("awaiters-saw-different-outcomes", {"seen": repr(seen)[:200]}))
        for v in viol:
            if len(res["violations"]) < 8:
                res["violations"].append(
                    {"oracle": v[0], "mechanism": v[0] + "/scheduler-reaches-future-twice", "detail": {"shape": shape, "raising_provider": raising, "violation": v[1]}, "case": {"mode": "scheduler", "cases": [0, 1]}}
                )
    res["samples"].append({"scheduler scenarios": "one Future listed twice / awaited by parent and child, 10 shapes x {ok, raising}"})
    # ---- a TASK as the future under observation: one of the tasks it awaits is suspended on a batch item, a sibling
    # completes that batch behind the scheduler's back (nested synchronous call, item.value(), batch.flush()) in the
    # same traversal; value() must hand back the outcome - the same one every time - and leave the task computed
    for how in ("sync-call", "item.value", "batch.flush", "batch.cancel"):
        for order, with_other in itertools.product(("waiter-first", "flusher-first", "waiter-twice", "nested-waiter"), (False, True)):
            asynq.scheduler.reset()
            rt = harness.HarnessRT({"nodes": [], "kinds": 2})
            notes = []
            n = itertools.count()

            @A()
            def getter():
                return (yield harness.HItem(rt, 0, "g%d" % next(n), ("c10t", "g")))

            @A()
            def waits():
                try:
                    v = yield harness.HItem(rt, 0, "w%d" % next(n), ("c10t", "w")), harness.HItem(rt, 0, "w%d" % next(n), ("c10t", "w2"))
                except UserErr as e:
                    v = "cancelled"
                return ("w", v)

            @A()
            def other():
                # a second, smaller batch that really needs a scheduler flush: the scheduler has to choose
                v = yield harness.HItem(rt, 1, "o%d" % next(n), ("c10t", "o"))
                return ("o", v)

            @A()
            def outer_waits():
                return (yield waits.asynq())

            @A()
            def flusher():
                if how == "sync-call":
                    v = getter()
                elif how == "item.value":
                    v = harness.HItem(rt, 0, "f%d" % next(n), ("c10t", "f")).value()
                elif how == "batch.flush":
                    it = harness.HItem(rt, 0, "f%d" % next(n), ("c10t", "f"))
                    it.batch.flush()
                    v = it.value()
                else:
                    # the batch the others wait for is cancelled (say, a transaction rolled back): it stays in the
                    # scheduler's books, finished but with its items still listed
                    it = harness.HItem(rt, 0, "f%d" % next(n), ("c10t", "f"))
                    it.batch.cancel(UserErr(("rollback",)))
                    v = "cancelled"
                return ("s", v)

            @A()
            def parent():
                more = (other.asynq(),) if with_other else (ConstFuture(("o", None)),)
                if order == "waiter-first":
                    v = yield (waits.asynq(), flusher.asynq()) + more
                elif order == "flusher-first":
                    v = yield (flusher.asynq(), waits.asynq()) + more
                elif order == "waiter-twice":
                    v = yield (waits.asynq(), flusher.asynq(), waits.asynq()) + more
                else:
                    v = yield (outer_waits.asynq(), flusher.asynq()) + more
                return v

            rt.attach()
            viol = []
            try:
                t = parent.asynq()
                t.on_computed.subscribe(lambda f_: notes.append(f_.is_computed()))
                v1 = outcome_of(t.value)
                comp = t.is_computed()
                v2 = outcome_of(t.value)
                v3 = outcome_of(t)
                if not comp:
                    viol.append(("value()-returned-with-the-task-uncomputed", {"first_value": repr(v1)[:120]}))
                if not (v1 == v2 == v3):
                    viol.append(("task-reported-different-outcomes", {"first": repr(v1)[:100], "second": repr(v2)[:100], "call": repr(v3)[:100]}))
                if v1[0] != "val" or not isinstance(v1[1], tuple) or [x[0] for x in v1[1] if isinstance(x, tuple)] != {"waiter-first": ["w", "s", "o"], "flusher-first": ["s", "w", "o"], "waiter-twice": ["w", "s", "w", "o"], "nested-waiter": ["w", "s", "o"]}[order]:
                    viol.append(("task-outcome-is-not-what-its-body-returned", {"observed": repr(v1)[:160]}))
                if notes != [True]:
                    viol.append(("subscriber-notifications", {"expected": [True], "observed": notes}))
            except BaseException as e:
                viol.append(("scheduler-scenario-crashed", exc_desc(e)))
            finally:
                rt.detach()
            res["evaluations"] += 1
            res["nontrivial"].append(hash(("sched2", how, order, with_other)) & 0xFFFFFFFFFFFF)
            c["scheduler_scenarios"] = c.get("scheduler_scenarios", 0) + 1
            c["task_outcomes_after_a_flush_behind_the_schedulers_back"] = c.get("task_outcomes_after_a_flush_behind_the_schedulers_back", 0) + 1
            for v in viol:
                if len(res["violations"]) < 8:
                    res["violations"].append({"oracle": v[0], "mechanism": v[0] + "/flush-behind-the-scheduler", "detail": {"how": how, "order": order, "another_batch_pending": with_other, "violation": v[1]}, "case": {"mode": "scheduler", "cases": [0, 1]}})


def run_unit(unit, progress):
    res = tl.new_result()
    c = res["counters"]
    if unit.get("mode") == "scheduler":
        progress(0)
        run_scheduler_scenarios(res, c)
        return res
    devnull = os.open(os.devnull, os.O_WRONLY)
    os.dup2(devnull, 1)
    os.dup2(devnull, 2)

    def one(kind, seq):
        tl.tick()
        viol, nontrivial, nnotes = run_sequence(kind, seq)
        res["evaluations"] += 1
        c["notifications_observed"] = c.get("notifications_observed", 0) + nnotes
        c["ops_" + kind] = c.get("ops_" + kind, 0) + len(seq)
        if nontrivial:
            res["nontrivial"].append(hash((kind, tuple(seq))) & 0xFFFFFFFFFFFF)
        if "reset" in seq:
            c["sequences_with_reset"] = c.get("sequences_with_reset", 0) + 1
        if viol and len(res["violations"]) < 6:
            for v in viol[:2]:
                res["violations"].append(
                    {
                        "oracle": v[0],
                        "mechanism": v[0],
                        "detail": {"kind": kind, "sequence": list(seq), "violation": v[1]},
                        "case": dict(unit, one=[kind, list(seq)]),
                    }
                )

    if "one" in unit:
        one(unit["one"][0], unit["one"][1])
        return res
    if unit["mode"] == "exhaustive":
        progress(0)
        kind = unit["kind"]
        n = 0
        for L in range(1, unit["maxlen"] + 1):
            for seq in itertools.product(OPS_SUB if unit.get("alphabet") == "sub" else OPS, repeat=L):
                one(kind, seq)
                n += 1
        c["exhaustive_sequences"] = n
        if unit.get("alphabet") == "sub":
            c["exhaustive_sequences_with_self_unsubscribing_callbacks"] = n
        if not res["samples"]:
            res["samples"].append({"kind": kind, "sequence": ["sub_raise", "sub_ok", "value", "set_value"], "note": "every sequence up to length %d was run" % unit["maxlen"]})
    else:
        a, b = unit["cases"]
        for i in range(a, b):
            progress(i)
            rnd = random.Random(tl.case_seed(unit["seed"], ID, i))
            kind = rnd.choice(KINDS)
            seq = [rnd.choice(OPS_ALL) for _ in range(rnd.randint(5, 15))]
            one(kind, seq)
            c["random_sequences"] = c.get("random_sequences", 0) + 1
    return res


def reach(c, tier):
    out = []
    for k in ["ops_" + k for k in KINDS] + ["notifications_observed", "sequences_with_reset", "exhaustive_sequences", "exhaustive_sequences_with_self_unsubscribing_callbacks", "random_sequences", "scheduler_scenarios"]:
        if not c.get(k):
            out.append("%s is zero" % k)
    return out


def extra_coverage(c, tier):
    return {"exhaustive": False}
