"""Tasklang: a JSON-serialisable model of asynq programs, and the *program text*
interpreter shared by the two backends.

A program is the "same code" of property C01: it is executed once on top of
asynq (backend = harness.HarnessRT, the generator below is driven by
AsyncTask) and once by a plain sequential evaluator (backend = ref.RefRT,
the generator is driven by a 20-line recursive driver).  What is shared is
only the *text* of the task bodies (statement sequencing, literal try / with /
return); what `yield X` means, what futures are and who resumes whom differs.

Program  = {"nodes": [Node...], "root": 0, "shared": [nid...], "kinds": n,
            "faults": {"<kind>:<key>": mode}, ...}
Node     = {"style": str, "ret": "return"|"result"|"future", "body": [Stmt...]}
Stmt     = ["yield", Struct] | ["yield", Struct, "twice"|"dup"]   same object yielded again / reached by two routes
         | ["sync", site, nid, how]          how: "call" | "value"
         | ["raise", site, cls]              cls: "exc" | "base"
         | ["try", body, kind, handler, fin] kind: "exc" | "base" | "none"
         | ["with", Ctx, body]
         | ["read", name]
         | ["ret", mode]                     early return / result()
         | ["orphan", Leaf]                  create a future, never yield it
         | ["syncshared", sid]               shared_task.value(): synchronous wait on a task created elsewhere
         | ["cancelbatch", kind]             cancel the kind's currently collecting batch (user-level cancel())
         | ["syncitem", site, kind, key]     item = request(); item.value()  (flushes its batch directly)
         | ["ctxopen", Ctx, tag] | ["ctxclose", tag]   a logging context with a non-lexical lifetime
         | ["probe", what]
Struct   = ["leaf", Leaf] | ["tuple", [Struct]] | ["list", [Struct]]
         | ["dict", [[key, Struct]...]]
Leaf     = ["call", site, nid] | ["shared", sid] | ["item", kind, key]
         | ["dbg", name, key] | ["const", v] | ["err", site, cls]
         | ["lazy", site, "ok"|"raise"] | ["none"] | ["again", i]
         | ["constexc", site]   ConstFuture whose VALUE is an exception instance
         | ["junk", what]
Ctx      = ["actx", name] | ["ov", svname, val] | ["attr", name, val]
         | ["nonasync", name]
"""

import collections

RET = True


class UserErr(Exception):
    def __init__(self, tag):
        Exception.__init__(self, tag)
        self.tag = tag

    def __repr__(self):
        return "UserErr(%r)" % (self.tag,)

    # value semantics, so that an exception object travelling as a plain VALUE can be compared
    def __eq__(self, other):
        return type(other) is type(self) and other.tag == self.tag

    def __ne__(self, other):
        return not self.__eq__(other)

    def __hash__(self):
        return hash(("UserErr", repr(self.tag)))


class FalsyUserErr(UserErr):
    """A user exception whose truth value is False (e.g. an aggregate error over an empty list)."""

    def __bool__(self):
        return False

    def __len__(self):
        return 0


class FrozenUserErr(UserErr):
    """A user exception that rejects attribute assignment once constructed (like an exception declared as a
    frozen dataclass, or one with __slots__ and no __dict__)."""

    def __init__(self, tag):
        Exception.__init__(self, tag)
        object.__setattr__(self, "tag", tag)

    def __setattr__(self, name, value):
        if name.startswith("__") and name.endswith("__"):
            # the interpreter's own bookkeeping (__traceback__, __context__, __cause__ ...) stays assignable,
            # as for an exception class with __slots__ = ()
            return Exception.__setattr__(self, name, value)
        raise AttributeError("cannot assign to field %r" % (name,))


class TaskyUserErr(UserErr):
    """A user exception that has an attribute of its own called _task (say, the job it belongs to)."""

    def __init__(self, tag):
        UserErr.__init__(self, tag)
        self._task = "job-17"


class TypedUserErr(UserErr):
    """A user exception whose class has an attribute of its own called _type_ (say, a wire-format tag)."""

    _type_ = "remote"


class UserBaseErr(BaseException):
    def __init__(self, tag):
        BaseException.__init__(self, tag)
        self.tag = tag

    def __repr__(self):
        return "UserBaseErr(%r)" % (self.tag,)


def make_user_exc(cls, tag):
    if cls == "base":
        return UserBaseErr(tag)
    if cls == "falsy":
        return FalsyUserErr(tag)
    if cls == "frozen":
        return FrozenUserErr(tag)
    if cls == "tasky":
        return TaskyUserErr(tag)
    if cls == "typed":
        return TypedUserErr(tag)
    return UserErr(tag)


class FutureResult(object):
    """A future object travelling as a plain VALUE (the result of a task). Compared by what it holds."""

    def payload_of(self):
        return self._payload

    def __eq__(self, other):
        return isinstance(other, FutureResult) and other.payload_of() == self.payload_of()

    def __ne__(self, other):
        return not self.__eq__(other)

    def __hash__(self):
        return hash(("FutureResult", repr(self.payload_of())))

    def __repr__(self):
        return "FutureResult(%r)" % (self.payload_of(),)


class RefFutureResult(FutureResult):
    def __init__(self, payload):
        self._payload = payload


class HarnessFault(Exception):
    """The harness itself is inconsistent (never a verdict on asynq)."""


JunkTuple = collections.namedtuple("JunkTuple", ["a", "b"])


class JunkList(list):
    pass



def make_junk(what):
    if what == "int":
        return 17
    if what == "str":
        return "junk"
    if what == "set":
        return {1, 2}
    if what == "nt":
        return JunkTuple(1, 2)
    if what == "obj":
        return object()
    # instances of SUBCLASSES of the containers asynq looks into are not such containers
    if what == "nt_none":
        return JunkTuple(None, None)
    if what == "odict":
        return collections.OrderedDict()
    if what == "ddict":
        return collections.defaultdict(list)
    if what == "listsub":
        return JunkList()
    raise HarnessFault("junk %r" % (what,))


def exc_desc(e):
    """Comparable description of an exception (identity-carrying for user
    exceptions through their unique tag)."""
    if e is None:
        return None
    if type(e).__name__ in ("ObservedErr", "ObservedBaseErr"):
        return e.desc
    if isinstance(e, UserErr):
        return ("UserErr", _freeze(e.tag))
    if isinstance(e, UserBaseErr):
        return ("UserBaseErr", _freeze(e.tag))
    if isinstance(e, TypeError):
        return ("TypeError",)
    if isinstance(e, AssertionError):
        s = str(e)
        if "wasn't set on batch flush" in s:
            return ("Unset",)
        if "cannot yield while" in s:
            return ("NonAsync",)
        return ("AssertionError", s[:80])
    if isinstance(e, GeneratorExit):
        return ("GeneratorExit", type(e).__name__)
    return (type(e).__name__, str(e)[:120])


def _freeze(x):
    if isinstance(x, list):
        return tuple(_freeze(i) for i in x)
    if isinstance(x, tuple):
        return tuple(_freeze(i) for i in x)
    return x


class Frame(object):
    """One task instance (one activation of a node)."""

    __slots__ = (
        "nid",
        "path",
        "parent",
        "received",
        "k",
        "futs",
        "ovs",
        "ctxs",
        "steps",
        "rtdata",
        "done",
        "open_ctxs",
    )

    def __init__(self, nid, path, parent=None):
        self.nid = nid
        self.path = path
        self.parent = parent
        self.received = []
        self.k = 0  # number of yields executed so far
        self.futs = []  # leaf futures created so far (for "again")
        self.ovs = []  # active overrides (reference backend)
        self.ctxs = []  # active contexts
        self.steps = 0
        self.rtdata = None
        self.done = False
        self.open_ctxs = []  # contexts entered with "ctxopen" and not yet closed

    def value(self):
        return ("n", self.nid, self.path, tuple(self.received))


def exec_node(rt, fr):
    """Generator: the body of one task instance."""
    node = rt.prog["nodes"][fr.nid]
    rt.ev_step(fr, 0)
    try:
        yield from exec_block(rt, fr, node["body"])
        if node["ret"] == "result":
            rt.result(fr, fr.value())
        if node["ret"] == "future":
            # the task's RESULT is itself a future (handed back un-awaited, for the caller to deal with)
            return rt.future_result(fr, fr.value())
        return fr.value()
    finally:
        # contexts opened by hand and still open are closed on the way out (like an ExitStack)
        while fr.open_ctxs:
            _tag, cm = fr.open_ctxs.pop()
            cm.__exit__(None, None, None)
        fr.done = True
        rt.ev_end(fr)


def run_plain(rt, fr):
    """Drive a body that has no yield statements as a plain function."""
    g = exec_node(rt, fr)
    try:
        next(g)
    except StopIteration as e:
        return e.value
    g.close()
    raise HarnessFault("plain-style node yielded")


def mark_received(got, tag, depth=0):
    t = type(got)
    if t is list:
        if depth < 2:
            for x in got:
                mark_received(x, tag, depth + 1)
        got.append(("seen-by", tag))
    elif t is dict:
        if depth < 2:
            for x in list(got.values()):
                mark_received(x, tag, depth + 1)
        got[("seen-by",)] = tag
    elif t is tuple and depth < 2:
        for x in got:
            mark_received(x, tag, depth + 1)


def exec_block(rt, fr, block):
    for st in block:
        op = st[0]
        if op == "yield":
            struct, leaves = rt.build(fr, st[1])
            flag = st[2] if len(st) > 2 else None
            obj = struct
            if flag == "dup":
                # the same container object reached by two routes within one yield
                obj = [struct, (None, struct)]
            for rep in range(2 if flag == "twice" else 1):
                # "twice": the very same object is yielded again (after a failure: by the handler)
                k = fr.k
                fr.k += 1
                snap = rt.snapshot(obj)
                rt.ev_yield(fr, k, leaves)
                try:
                    got = yield obj
                except BaseException as e:
                    rt.ev_resume_exc(fr, k, leaves, e)
                    rt.check_unchanged(fr, k, obj, snap)
                    if flag == "twice" and rep == 0 and isinstance(e, Exception) and not isinstance(e, HarnessFault):
                        fr.received.append(("caught", exc_desc(e)))
                        rt.ev_caught(fr, e)
                        continue
                    raise
                else:
                    rt.ev_resume(fr, k, leaves, got)
                    rt.check_unchanged(fr, k, obj, snap)
                    # what a yield hands back belongs to the program: it may modify it (here: leave a mark in every
                    # list / dict it received) without that showing up anywhere else
                    mark_received(got, (fr.path, k))
                    fr.received.append(("got", got))
        elif op == "sync":
            v = rt.sync_call(fr, st)
            fr.received.append(("sync", v))
        elif op == "syncshared":
            v = rt.sync_shared(fr, st)
            fr.received.append(("syncshared", v))
        elif op == "cancelbatch":
            rt.cancel_batch(fr, st)
        elif op == "syncitem":
            v = rt.sync_item(fr, st)
            fr.received.append(("syncitem", v))
        elif op == "raise":
            raise rt.make_exc(fr, st[1], st[2])
        elif op == "try":
            body, kind, handler, fin = st[1], st[2], st[3], st[4]
            try:
                if kind == "exc":
                    try:
                        if (yield from exec_block(rt, fr, body)):
                            return RET
                    except Exception as e:
                        if isinstance(e, HarnessFault):
                            raise  # never a program-level event
                        fr.received.append(("caught", exc_desc(e)))
                        rt.ev_caught(fr, e)
                        if (yield from exec_block(rt, fr, handler)):
                            return RET
                elif kind == "base":
                    try:
                        if (yield from exec_block(rt, fr, body)):
                            return RET
                    except BaseException as e:
                        if isinstance(e, (GeneratorExit, HarnessFault)):
                            raise
                        fr.received.append(("caught", exc_desc(e)))
                        rt.ev_caught(fr, e)
                        if (yield from exec_block(rt, fr, handler)):
                            return RET
                else:
                    if (yield from exec_block(rt, fr, body)):
                        return RET
            finally:
                if fin:
                    fr.received.append(("finally",))
        elif op == "with":
            cm = rt.ctx(fr, st[1])
            with cm:
                if (yield from exec_block(rt, fr, st[2])):
                    return RET
        elif op == "ctxopen":
            # a context whose lifetime is not a lexical block (entered here, left by a later "ctxclose"):
            # contexts may then be left in another order than they were entered
            cm = rt.ctx(fr, st[1])
            cm.__enter__()
            fr.open_ctxs.append((st[2], cm))
        elif op == "ctxclose":
            for j, (tag, cm) in enumerate(fr.open_ctxs):
                if tag == st[1]:
                    del fr.open_ctxs[j]
                    cm.__exit__(None, None, None)
                    break
        elif op == "read":
            v = rt.read(fr, st[1])
            # type-sensitive: 1, True and 1.0 are different values to a program
            fr.received.append(("read", st[1], (type(v).__name__, v)))
        elif op == "ret":
            if st[1] == "result":
                rt.result(fr, fr.value())
            return RET
        elif op == "orphan":
            rt.orphan(fr, st[1])
        elif op == "probe":
            rt.probe(fr, st[1])
        else:
            raise HarnessFault("unknown statement %r" % (op,))
    return False


# ---------------------------------------------------------------------------
# static helpers over programs


def iter_stmts(block):
    for st in block:
        yield st
        op = st[0]
        if op == "try":
            for s in iter_stmts(st[1]):
                yield s
            for s in iter_stmts(st[3]):
                yield s
        elif op == "with":
            for s in iter_stmts(st[2]):
                yield s


def iter_leaves(struct):
    t = struct[0]
    if t == "leaf":
        yield struct[1]
    elif t in ("tuple", "list"):
        for s in struct[1]:
            for l in iter_leaves(s):
                yield l
    elif t == "dict":
        for _k, s in struct[1]:
            for l in iter_leaves(s):
                yield l


def node_has_yield(node):
    return any(st[0] == "yield" for st in iter_stmts(node["body"]))


def prog_features(prog):
    f = collections.Counter()
    for node in prog["nodes"]:
        f["style_" + node["style"]] += 1
        for st in iter_stmts(node["body"]):
            f["st_" + st[0]] += 1
            if st[0] == "yield":
                f["struct_" + st[1][0]] += 1
                for l in iter_leaves(st[1]):
                    f["leaf_" + l[0]] += 1
            elif st[0] == "with":
                f["ctx_" + st[1][0]] += 1
            elif st[0] == "try":
                f["try_" + st[2]] += 1
    return f


def struct_hash(prog):
    import hashlib
    import json

    return int(
        hashlib.sha1(json.dumps(prog, sort_keys=True).encode()).hexdigest()[:15], 16
    )
