"""In-run probes and post-run oracles over HarnessRT executions.

Every probe only reads public state (is_computed(), error(), get_priority(),
get_active_task(), public scheduler attributes) at moments the library itself
hands control to user code.
"""

import asynq
from asynq import scheduler as asynq_scheduler
from asynq.futures import FutureBase
from asynq.batching import BatchBase

from . import lang
from .lang import exc_desc


def is_future(x):
    return isinstance(x, FutureBase)


# ---------------------------------------------------------------------------
# C02 / C03: what is true at the moment a task is resumed


def resume_probe(rt, fr, k, leaves, exc, got):
    rt.n_resume_checks = getattr(rt, "n_resume_checks", 0) + 1
    first_fail = None
    for l in leaves:
        o = l.obj
        if l.kind == "junk":
            if first_fail is None:
                first_fail = l
            continue
        if o is None:
            continue
        if not o.is_computed():
            rt.violation(
                "resumed-while-uncomputed",
                {"task": fr.path, "yield": k, "leaf": (l.kind, l.pos), "delivered": exc_desc(exc) if exc is not None else "value"},
            )
            continue
        if first_fail is None and o.error() is not None:
            first_fail = l
    if exc is None:
        if first_fail is not None:
            rt.violation(
                "failure-not-delivered",
                {"task": fr.path, "yield": k, "failing_leaf": (first_fail.kind, first_fail.pos)},
            )
        return
    rt.n_exc_resumes = getattr(rt, "n_exc_resumes", 0) + 1
    nfail = sum(1 for l in leaves if l.kind == "junk" or (l.obj is not None and l.obj.is_computed() and l.obj.error() is not None))
    if nfail >= 2:
        rt.n_multi_fail = getattr(rt, "n_multi_fail", 0) + 1
    if first_fail is None:
        rt.violation("exception-without-failing-future", {"task": fr.path, "yield": k, "exc": exc_desc(exc)})
        return
    if first_fail.kind == "junk":
        if type(exc) is not TypeError:
            rt.violation(
                "junk-not-typeerror",
                {"task": fr.path, "yield": k, "exc": exc_desc(exc), "pos": first_fail.pos},
            )
        return
    want = first_fail.obj.error()
    if exc is not want:
        rt.violation(
            "wrong-exception-instance",
            {
                "task": fr.path,
                "yield": k,
                "delivered": exc_desc(exc),
                "first_failing_in_structure_order": (first_fail.kind, first_fail.pos, exc_desc(want)),
                "same_description": exc_desc(exc) == exc_desc(want),
            },
        )


def peek_probe(rt, *_a):
    """Somebody looks at the pending batches (logging, state queries): looking must not change anything."""
    from asynq.batching import BatchBase

    for b in rt.batches:
        if b.is_computed():
            continue
        calls = b.flush_calls
        try:
            q = (b.is_cancelled(), b.is_flushed(), b.is_empty(), BatchBase.__str__(b))
        except BaseException as e:
            rt.violation("state-query-on-a-pending-batch-raised", {"batch": b.bid, "exc": exc_desc(e)})
            continue
        rt.n_peeks = getattr(rt, "n_peeks", 0) + 1
        if b.is_computed() or b.flush_calls != calls or q[0] or q[1]:
            rt.violation("state-query-changed-a-pending-batch", {"batch": b.bid, "is_cancelled": q[0], "is_flushed": q[1], "computed_now": b.is_computed(), "flush_body_ran": b.flush_calls != calls})


def step_after_done_probe(rt, fr, k):
    if fr.done:
        rt.violation("ran-after-completion", {"task": fr.path, "step": k})


# ---------------------------------------------------------------------------
# C08: active task


def active_task_probe(rt, fr, k):
    rt.n_active_checks = getattr(rt, "n_active_checks", 0) + 1
    t = asynq_scheduler.get_active_task()
    mine = rt.task_of_frame.get(id(fr))
    if mine is None:
        # first step: learn which task runs this frame from the library-visible args
        if t is not None and t.args and t.args[-1] is fr:
            rt.task_of_frame[id(fr)] = t
            rt.keep.append(fr)
            return
        rt.violation(
            "active-task-wrong",
            {"task": fr.path, "step": k, "active": repr(t)[:200], "why": "active task's args do not name this body"},
        )
        return
    if t is not mine:
        rt.violation("active-task-wrong", {"task": fr.path, "step": k, "active": repr(t)[:200]})


def stale_active_probe(rt, where):
    """Code the scheduler itself runs between task steps (value providers, context callbacks, flush bodies)
    must not see a task as 'active' whose body is not executing: get_active_task() is None there, or a task whose
    step is on the Python stack right now (it made the synchronous call we are in)."""
    if not rt.track_running:
        return
    t = asynq_scheduler.get_active_task()
    if t is None:
        return
    args = getattr(t, "args", None)
    fr = args[-1] if args else None
    if not isinstance(fr, lang.Frame):
        return
    rt.n_stale_active_checks = getattr(rt, "n_stale_active_checks", 0) + 1
    if not any(f is fr for f in rt.running):
        rt.violation("active-task-is-a-task-that-is-not-running", {"seen_from": where, "active": repr(t)[:160], "task": fr.path, "finished": fr.done})


# ---------------------------------------------------------------------------
# helpers over the frame graph


def pending_leaves(fr):
    """Leaves of the yield a started, unfinished task is suspended at."""
    if fr.done or fr.rtdata is None:
        return []
    return fr.rtdata


def reachable_frames(rt, root_path=()):
    """Task instances reachable from the root through currently awaited
    (uncomputed) task leaves. Returns (started frames, unstarted paths)."""
    seen = set()
    started = []
    unstarted = []
    stack = [root_path]
    while stack:
        p = stack.pop()
        if p in seen:
            continue
        seen.add(p)
        fr = rt.frames.get(p)
        if fr is None:
            unstarted.append(p)
            continue
        started.append(fr)
        if fr.done:
            continue
        for l in pending_leaves(fr):
            if l.kind in ("call", "shared") and not l.obj.is_computed():
                stack.append(l.path)
    return started, unstarted


# ---------------------------------------------------------------------------
# C04: quiescence at every flush (yield-only programs)


def quiescence_probe(rt, batch):
    rt.n_flush_checks = getattr(rt, "n_flush_checks", 0) + 1
    started, unstarted = reachable_frames(rt)
    for p in unstarted:
        rt.violation("flush-while-task-unstarted", {"task": p, "batch": getattr(batch, "bid", None)})
    for fr in started:
        if fr.done:
            continue
        leaves = pending_leaves(fr)
        if fr.rtdata is None:
            rt.violation("flush-while-task-mid-step", {"task": fr.path})
            continue
        blocked_on = [l for l in leaves if l.obj is not None and l.kind != "junk" and not l.obj.is_computed()]
        if not blocked_on:
            rt.violation(
                "flush-while-task-runnable",
                {"task": fr.path, "yield": fr.k - 1, "batch": getattr(batch, "bid", None)},
            )
            continue
        for l in blocked_on:
            if l.kind in ("item", "dbg"):
                if l.obj.batch.is_flushed():
                    rt.violation("blocked-on-flushed-item", {"task": fr.path, "leaf": l.inst})
            elif l.kind not in ("call", "shared"):
                rt.violation(
                    "flush-while-inline-future-uncomputed",
                    {"task": fr.path, "leaf": (l.kind, l.inst)},
                )


# ---------------------------------------------------------------------------
# C05: flush bookkeeping


class FlushBook(object):
    def __init__(self, rt, check_priority):
        self.rt = rt
        self.before = {}
        self.after = {}
        self.open = []
        self.check_priority = check_priority
        self.decisions_multi = 0
        self.decisions = 0
        self.wait_stack = []

    def on_before(self, rt, batch):
        b = id(batch)
        rt.keep.append(batch)
        self.before[b] = self.before.get(b, 0) + 1
        self.decisions += 1
        if self.before[b] > 1:
            rt.violation("batch-flushed-twice", {"batch": getattr(batch, "bid", repr(batch))})
        if not batch.items:
            rt.violation("empty-batch-flushed", {"batch": getattr(batch, "bid", repr(batch))})
        if batch.is_flushed():
            rt.violation("finished-batch-flushed", {"batch": getattr(batch, "bid", repr(batch))})
        if self.open and not rt.in_flush_sync:
            rt.violation("flush-events-nested", {"batch": getattr(batch, "bid", repr(batch))})
        self.open.append(b)
        # nothing is flushed once the awaited computation is complete
        if rt.wait_frames:
            w = rt.wait_frames[-1]
            if w.done:
                rt.violation(
                    "flush-after-awaited-computation-complete",
                    {"awaited": w.path, "batch": getattr(batch, "bid", repr(batch))},
                )
        if self.check_priority:
            cands = pending_batches(rt)
            if id(batch) not in [id(c) for c in cands]:
                # self-consistency of the model, not a verdict
                rt.model_disagreements = getattr(rt, "model_disagreements", 0) + 1
                cands.append(batch)
            for c_ in cands:
                # the documented default: (0, number of requests the batch holds) - answered or not
                if hasattr(c_, "bid") and hasattr(c_, "kind") and rt.priority_of(c_) is None:
                    rt.n_default_priority_checks = getattr(rt, "n_default_priority_checks", 0) + 1
                    if c_.get_priority() != (0, len(c_.items)):
                        rt.violation("default-priority-is-not-the-number-of-items-held", {"batch": c_.bid, "get_priority": c_.get_priority(), "items_held": len(c_.items)})
            if len(cands) >= 2:
                prios = [(c.get_priority(), c) for c in cands]
                mine = batch.get_priority()
                best = max(p for p, _ in prios)
                if len(set(p for p, _ in prios)) >= 2:
                    self.decisions_multi += 1
                if mine < best:
                    rt.violation(
                        "lower-priority-batch-flushed",
                        {
                            "flushed": (getattr(batch, "bid", repr(batch)), mine),
                            "pending": [(getattr(c, "bid", repr(c)), p) for p, c in prios],
                        },
                    )

    def on_after(self, rt, batch):
        b = id(batch)
        self.after[b] = self.after.get(b, 0) + 1
        if not self.open or self.open[-1] != b:
            rt.violation("after-without-before", {"batch": getattr(batch, "bid", repr(batch))})
        else:
            self.open.pop()

    def finish(self, rt):
        for b, n in self.before.items():
            if self.after.get(b, 0) != n:
                rt.violation("before-after-unpaired", {"before": n, "after": self.after.get(b, 0)})
        # every item of a flushed harness batch: completed exactly once, by that flush
        for inst, it in rt.items.items():
            if it.batch.is_flushed() or it.is_computed():
                rt.n_item_checks = getattr(rt, "n_item_checks", 0) + 1
                if it.completions != 1:
                    rt.violation("item-completions", {"item": inst, "completions": it.completions})
                fl = rt.item_flush.get(inst)
                if getattr(it, "hit", False):
                    # answered when it was created: no flush has to account for it, and none may answer it again
                    if fl is not None:
                        rt.violation("item-answered-by-other-flush", {"item": inst, "batch": it.bid, "flush": fl})
                elif fl is None and not it.batch.is_cancelled():
                    rt.violation("item-completed-without-its-flush", {"item": inst})
                elif fl is not None and fl != it.bid:
                    rt.violation("item-answered-by-other-flush", {"item": inst, "batch": it.bid, "flush": fl})
                done = rt.item_done.get(inst)
                if done is not None and it.is_computed():
                    if done[0] == "val":
                        ok = it.error() is None and it.value() == done[1]
                    else:
                        ok = it.error() is not None and exc_desc(it.error()) == done[1]
                    if not ok:
                        rt.violation(
                            "item-outcome-differs-from-flush",
                            {"item": inst, "flush_did": done, "item_has": exc_desc(it.error()) or "value"},
                        )
        for hb in rt.batches:
            if hb.flush_calls > 1:
                rt.violation("flush-body-ran-twice", {"batch": hb.bid, "calls": hb.flush_calls})


def pending_batches(rt):
    """Batches holding an unflushed item that some started, unfinished task
    reachable from the root is waiting for (harness knowledge only)."""
    out = []
    seen = set()
    started, _ = reachable_frames(rt)
    for fr in started:
        for l in pending_leaves(fr):
            if l.kind in ("item", "dbg") and not l.obj.is_computed():
                b = l.obj.batch
                if id(b) not in seen and b.items and not b.is_flushed():
                    seen.add(id(b))
                    out.append(b)
    return out


# ---------------------------------------------------------------------------
# C03 post-run checks


def start_order_check(rt):
    """Fresh sibling tasks of one list/tuple yield start in written order."""
    start_at = {}
    for i, ev in enumerate(rt.log):
        if ev[0] == "step" and ev[2] == 0 and ev[1] not in start_at:
            start_at[ev[1]] = i
    n = 0
    for (path, k), leaves in rt.yield_leaves.items():
        sibs = [l for l in leaves if l.kind == "call" and l.fresh and not l.under_dict]
        if len(sibs) < 2:
            continue
        n += 1
        last = -1
        last_leaf = None
        missing_before = None
        for l in sibs:
            s = start_at.get(l.path)
            if s is None:
                if missing_before is None:
                    missing_before = l
                continue
            if missing_before is not None:
                rt.violation(
                    "sibling-start-order",
                    {"task": path, "yield": k, "started": l.path, "but_earlier_sibling_never_started": missing_before.path},
                )
                break
            if s < last:
                rt.violation(
                    "sibling-start-order",
                    {"task": path, "yield": k, "started_first": l.path, "written_before_it": last_leaf.path},
                )
                break
            last = s
            last_leaf = l
    rt.n_order_checks = getattr(rt, "n_order_checks", 0) + n


def orphan_check(rt):
    for l in rt.orphans:
        if getattr(l, "kind", None) == "call":
            rt.n_orphans = getattr(rt, "n_orphans", 0) + 1
            if l.path in rt.frames:
                rt.violation("orphan-task-started", {"task": l.path})
            if l.obj.is_computed():
                rt.violation("orphan-task-computed", {"task": l.path})


def completion_check(rt, rrt):
    """Every task the reference says was (transitively) awaited is computed."""
    for p in rrt.frames:
        t = rt.tasks.get(p)
        if t is None:
            continue
        rt.n_completion_checks = getattr(rt, "n_completion_checks", 0) + 1
        if not t.is_computed():
            rt.violation("awaited-task-left-uncomputed", {"task": p})
    for p, fr in rt.frames.items():
        want = rrt.steps.get(p)
        if want is not None and fr.steps != want:
            rt.violation("body-step-count", {"task": p, "steps": fr.steps, "reference": want})


# ---------------------------------------------------------------------------
# C06: an AsyncContext is active exactly while its task, or work only it awaits, runs


def _awaiters_index(rt):
    """child frame path -> set of frames currently suspended on it."""
    idx = {}
    for fr in rt.frames.values():
        if fr.done or fr.rtdata is None:
            continue
        for l in fr.rtdata:
            if l.kind in ("call", "shared") and l.obj is not None and not l.obj.is_computed():
                idx.setdefault(l.path, []).append(fr)
    return idx


def _relation(rt, owner, running, idx, anchors):
    """'runs' if owner is on the running stack; 'exclusive' if some running
    task can only be reached (through awaiting edges, from any anchor of the
    current waits) via owner; 'none' if owner awaits no running task;
    'shared' otherwise."""
    if any(r is owner for r in running):
        return "runs"
    rel = "none"
    for r in running:
        # upward closure from r
        up = set()
        stack = [r.path]
        through_owner_only = True
        reaches_owner = False
        # explore upward avoiding owner: if an anchor is reachable, not exclusive
        seen = set()
        stack = [r.path]
        reach_anchor_without_owner = False
        while stack:
            p = stack.pop()
            if p in seen:
                continue
            seen.add(p)
            if p in anchors and p != r.path:
                reach_anchor_without_owner = True
            for a in idx.get(p, ()):
                if a is owner:
                    reaches_owner = True
                    continue
                stack.append(a.path)
        if r.path in anchors:
            # r is itself awaited by running code (top level or a sync caller)
            reach_anchor_without_owner = True
        if reaches_owner:
            if not reach_anchor_without_owner:
                return "exclusive"
            rel = "shared"
    return rel


def context_activity_probe(rt, where):
    """Evaluate, for every live context, whether it must be active or paused now."""
    if not rt.live_ctx:
        return
    running = rt.running
    idx = _awaiters_index(rt)
    anchors = set(w.path for w in rt.wait_frames)
    for cid, ctx in list(rt.live_ctx.items()):
        if ctx.fail is not None:
            continue
        owner = ctx.fr
        rel = _relation(rt, owner, running, idx, anchors)
        rt.n_ctx_checks = getattr(rt, "n_ctx_checks", 0) + 1
        if rel in ("runs", "exclusive"):
            if rel == "exclusive":
                rt.n_ctx_exclusive = getattr(rt, "n_ctx_exclusive", 0) + 1
            if not ctx.active:
                rt.violation(
                    "context-paused-while-its-task-or-awaited-work-runs",
                    {"ctx": cid, "relation": rel, "at": where, "running": [r.path for r in running]},
                )
        elif rel == "none":
            rt.n_ctx_must_be_paused = getattr(rt, "n_ctx_must_be_paused", 0) + 1
            if ctx.active:
                rt.violation(
                    "context-active-while-unrelated-work-runs-or-flush",
                    {"ctx": cid, "at": where, "running": [r.path for r in running]},
                )
        else:
            rt.n_ctx_shared = getattr(rt, "n_ctx_shared", 0) + 1


def ctx_step_probe(rt, fr, k):
    context_activity_probe(rt, ("step", fr.path, k))


def ctx_flush_probe(rt, batch):
    context_activity_probe(rt, ("flush", getattr(batch, "bid", None)))
    # NonAsync (=>): nobody outside the running chain may still sit suspended in a NonAsync block
    if getattr(rt, "na_created", 0):
        rt.n_na_flush_checks = getattr(rt, "n_na_flush_checks", 0) + 1
    if rt.live_na:
        idx = _awaiters_index(rt)
        anchors = set(w.path for w in rt.wait_frames)
        for cid, na in list(rt.live_na.items()):
            owner = na.fr
            rel = _relation(rt, owner, rt.running, idx, anchors)
            if rel != "none":
                continue
            t = rt.tasks.get(owner.path)
            if owner.rtdata is not None and not owner.done and (t is None or not t.is_computed()):
                rt.violation(
                    "task-suspended-across-flush-inside-NonAsyncContext",
                    {"ctx": cid, "task": owner.path, "batch": getattr(batch, "bid", None)},
                )


def _bottoms_out_in_unflushed_item(rt, leaves, seen):
    for l in leaves:
        if l.obj is None or l.kind == "junk":
            continue
        if l.obj.is_computed():
            continue
        if l.kind in ("item", "dbg"):
            return True
        if l.kind in ("call", "shared"):
            if l.path in seen:
                continue
            seen.add(l.path)
            fr = rt.frames.get(l.path)
            if fr is not None and fr.rtdata is not None:
                if _bottoms_out_in_unflushed_item(rt, fr.rtdata, seen):
                    return True
    return False


def nonasync_close_probe(rt, fr, k, leaves):
    """(<=) a body closed while suspended inside a NonAsync block: the task
    must really have been blocked on something that needs a flush."""
    mine = [na for na in rt.live_na.values() if na.fr is fr]
    if not mine:
        return
    t = rt.tasks.get(fr.path)
    err = None
    if t is not None and t.is_computed():
        err = t.error()
    if err is None or "cannot yield while" not in str(err):
        return
    rt.n_na_aborts = getattr(rt, "n_na_aborts", 0) + 1
    if not _bottoms_out_in_unflushed_item(rt, leaves, set()):
        rt.violation(
            "NonAsyncContext-failed-a-task-that-did-not-need-a-flush",
            {"task": fr.path, "yield": k},
        )


# ---------------------------------------------------------------------------
# C07: activations nest (whatever was resumed last is paused first)


def nesting_check(rt):
    stack = []
    n = 0
    maxdepth = 0
    for ev in rt.log:
        if ev[0] == "ctx_resume":
            stack.append(ev[1])
            maxdepth = max(maxdepth, len(stack))
        elif ev[0] == "ctx_pause":
            n += 1
            if not stack:
                rt.violation("pause-without-matching-resume", {"ctx": ev[1]})
                return
            if stack[-1] != ev[1]:
                if ev[1] in stack:
                    rt.violation(
                        "activations-not-nested",
                        {"paused": ev[1], "but_most_recently_resumed_is": stack[-1], "depth": len(stack)},
                    )
                    stack.remove(ev[1])
                else:
                    rt.violation("pause-without-matching-resume", {"ctx": ev[1]})
                return
            stack.pop()
    rt.n_nesting_events = getattr(rt, "n_nesting_events", 0) + n
    rt.max_nesting = max(getattr(rt, "max_nesting", 0), maxdepth)
    if stack:
        rt.violation("context-left-active-after-computation", {"contexts": stack[:4]})
