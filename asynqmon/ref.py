"""Reference backend: plain sequential, depth-first evaluation of a Tasklang
program.  No asynq import anywhere in this file.

A `yield struct` is evaluated by resolving every leaf of the structure left to
right (child tasks recursively, to completion), and then either sending the
structure back with each leaf replaced by its value, or throwing the first
failing leaf's exception (structure order) into the body.
"""

import contextlib

from . import lang
from .lang import Frame, HarnessFault, UserBaseErr, UserErr


class RefResult(GeneratorExit):
    def __init__(self, value):
        GeneratorExit.__init__(self, "RefResult")
        self.value = value


class ObservedErr(Exception):
    def __init__(self, desc):
        Exception.__init__(self, desc)
        self.desc = desc


class ObservedBaseErr(BaseException):
    def __init__(self, desc):
        BaseException.__init__(self, desc)
        self.desc = desc


class _WouldBlock(BaseException):
    """Control flow: a not-yet-flushed item was reached in no-flush mode."""


class NonAsyncAbort(AssertionError):
    def __str__(self):
        return "Task cannot yield while NonAsync is active"


def desc_of(e):
    if isinstance(e, (ObservedErr, ObservedBaseErr)):
        return e.desc
    return lang.exc_desc(e)


class RefLeaf(object):
    __slots__ = ("kind", "spec", "pos", "outcome", "frame", "inst", "obj")

    def __init__(self, kind, spec, pos):
        self.kind = kind
        self.spec = spec
        self.pos = pos
        self.outcome = None  # ("val", v) | ("exc", instance)
        self.frame = None
        self.inst = None
        self.obj = None


class RefRT(object):
    def __init__(self, prog, observed_items=None, budget=200000):
        self.prog = prog
        self.shared = {}
        self.observed_items = observed_items
        self.frames = {}  # path -> Frame
        self.steps = {}  # path -> body steps
        self.yields = {}  # (path, k) -> outcome summary delivered at that yield
        self.items = []  # item instances resolved, in sequential order
        self.started = []  # paths in sequential start order
        self.budget = budget
        self.noflush = 0
        self.defaults = prog.get("defaults", {})
        self.flushes_needed = 0
        self.caught = 0
        self.max_depth = 0
        self.aborted = set()  # paths of tasks failed by a NonAsyncContext

    def __repr__(self):
        return "refrt"

    # ---- events (mostly counters)
    def ev_step(self, fr, k):
        self.steps[fr.path] = self.steps.get(fr.path, 0) + 1
        self.budget -= 1
        if self.budget < 0:
            raise HarnessFault("reference budget exceeded")
        if k == 0:
            self.started.append(fr.path)
            d = len(fr.path) if isinstance(fr.path, tuple) else 1
            if d > self.max_depth:
                self.max_depth = d

    def ev_end(self, fr):
        pass

    def ev_yield(self, fr, k, leaves):
        pass

    def snapshot(self, obj):
        return None

    def check_unchanged(self, fr, k, obj, snap):
        pass

    def ev_resume(self, fr, k, leaves, got):
        self.steps[fr.path] = self.steps.get(fr.path, 0) + 1
        self.yields[(fr.path, k)] = ("val",)

    def ev_resume_exc(self, fr, k, leaves, e):
        if isinstance(e, GeneratorExit):
            return
        self.steps[fr.path] = self.steps.get(fr.path, 0) + 1
        self.yields[(fr.path, k)] = ("exc", desc_of(e))

    def ev_caught(self, fr, e):
        self.caught += 1

    def probe(self, fr, what):
        pass

    # ---- program text services
    def result(self, fr, value):
        raise RefResult(value)

    def future_result(self, fr, value):
        return lang.RefFutureResult(value)

    def make_exc(self, fr, site, cls):
        if cls == "cached":
            if getattr(self, "_cached_exc", None) is None:
                self._cached_exc = lang.make_user_exc("exc", ("cached",))
            return self._cached_exc
        tag = ("raise", site, fr.path)
        return lang.make_user_exc(cls, tag)

    def read(self, fr, name):
        f = fr
        while f is not None:
            for n, v, _own in reversed(f.ovs):
                if n == name:
                    return v
            f = f.parent
        return self.defaults.get(name)

    @contextlib.contextmanager
    def _ov(self, fr, name, val):
        entry = (name, val, object())  # (its own entry: overrides may be left in another order than entered)
        fr.ovs.append(entry)
        try:
            yield
        finally:
            for j in range(len(fr.ovs) - 1, -1, -1):
                if fr.ovs[j] is entry:
                    del fr.ovs[j]
                    break

    @contextlib.contextmanager
    def _nonasync(self, fr):
        fr.ctxs.append("nonasync")
        try:
            yield
        finally:
            fr.ctxs.pop()

    def ctx(self, fr, spec):
        t = spec[0]
        if t in ("ov", "attr"):
            return self._ov(fr, spec[1], spec[2])
        if t == "nonasync":
            return self._nonasync(fr)
        return contextlib.nullcontext()

    def orphan(self, fr, leaf):
        pass

    def build(self, fr, spec):
        leaves = []
        struct = self._build(fr, spec, leaves)
        return struct, leaves

    def _build(self, fr, spec, leaves):
        t = spec[0]
        if t == "leaf":
            return self._leaf(fr, spec[1], leaves)
        if t == "tuple":
            return tuple(self._build(fr, s, leaves) for s in spec[1])
        if t == "list":
            return [self._build(fr, s, leaves) for s in spec[1]]
        if t == "dict":
            return {k: self._build(fr, s, leaves) for k, s in spec[1]}
        raise HarnessFault("struct %r" % (t,))

    def _leaf(self, fr, l, leaves):
        kind = l[0]
        pos = len(leaves)
        if kind == "again":
            if fr.futs:
                old = fr.futs[l[1] % len(fr.futs)]
                leaves.append(old)
                return old
            l = ["const", ("again-none", l[1])]
            kind = "const"
        leaf = RefLeaf(kind, l, pos)
        leaf.inst = (fr.path, fr.k, pos)
        if kind == "none":
            leaves.append(leaf)
            leaf.outcome = ("val", None)
            leaf.obj = None
            return None
        if kind == "junk":
            leaf.obj = lang.make_junk(l[1])
            leaves.append(leaf)
            return leaf.obj
        leaf.obj = leaf
        if kind == "call":
            leaf.frame = Frame(l[2], fr.path + (l[1],), fr)
        elif kind == "shared":
            sid = l[1]
            if sid in self.shared:
                leaf = self.shared[sid]
            else:
                leaf.frame = Frame(self.prog["shared"][sid], ("S", sid), fr)
                self.shared[sid] = leaf
        leaves.append(leaf)
        fr.futs.append(leaf)
        return leaf

    # ---- evaluation
    def item_outcome(self, kind, key, inst):
        if self.observed_items is not None:
            try:
                o = self.observed_items[inst]
            except KeyError:
                raise HarnessFault("reference reached item %r never flushed" % (inst,))
            if o[0] == "val":
                return o
            d = o[1]
            cls = ObservedBaseErr if d and d[0] == "UserBaseErr" else ObservedErr
            return ("exc", cls(d))
        mode = self.prog.get("faults", {}).get("%s:%s" % (kind, key))
        if mode in ("error", "falsyerror"):
            return ("exc", lang.make_user_exc("falsy" if mode == "falsyerror" else "exc", ("item", kind, key, inst)))
        if mode == "baseerror":
            return ("exc", UserBaseErr(("item", kind, key, inst)))
        if mode == "unset":
            return (
                "exc",
                AssertionError("Value of this item wasn't set on batch flush."),
            )
        return ("val", ("iv", kind, key, inst))

    def resolve(self, leaf):
        if leaf.outcome is not None:
            return
        kind = leaf.kind
        l = leaf.spec
        if kind == "const":
            leaf.outcome = ("val", lang._freeze(l[1]))
        elif kind == "constexc":
            leaf.outcome = ("val", UserErr(("value", l[1])))
        elif kind == "err":
            tag = ("err", l[1], leaf.inst)
            leaf.outcome = ("exc", lang.make_user_exc(l[2], tag))
        elif kind == "lazy":
            if l[2] in ("ok", "sync"):
                leaf.outcome = ("val", ("lazy", l[1], leaf.inst))
            else:
                leaf.outcome = ("exc", UserErr(("lazy", l[1], leaf.inst)))
        elif kind in ("item", "dbg"):
            if self.noflush:
                raise _WouldBlock()
            self.flushes_needed += 1
            self.items.append((kind, l[1], l[2], leaf.inst))
            if kind == "dbg":
                leaf.outcome = ("val", ("dbg", l[1], l[2], leaf.inst))
            else:
                leaf.outcome = self.item_outcome(l[1], l[2], leaf.inst)
        elif kind in ("call", "shared"):
            leaf.outcome = self.eval_frame(leaf.frame)
        else:
            raise HarnessFault("resolve %r" % (kind,))

    def unwrap(self, struct):
        if struct is None:
            return None
        if isinstance(struct, RefLeaf):
            o = struct.outcome
            if o[0] == "val":
                return o[1]
            raise o[1]
        t = type(struct)
        if t is tuple:
            return tuple([self.unwrap(s) for s in struct])
        if t is list:
            return [self.unwrap(s) for s in struct]
        if t is dict:
            return {k: self.unwrap(s) for k, s in struct.items()}
        raise TypeError("Cannot unwrap an object of type %r" % (t,))

    def gen_for(self, fr):
        self.frames[fr.path] = fr
        return lang.exec_node(self, fr)

    def eval_frame(self, fr):
        """Run one task instance to completion. Returns ("val", v)|("exc", e)."""
        gen = self.gen_for(fr)
        send = None
        throw = None
        while True:
            try:
                if throw is None:
                    req = gen.send(send)
                else:
                    req = gen.throw(throw)
            except StopIteration as s:
                return ("val", s.value)
            except RefResult as r:
                return ("val", r.value)
            except _WouldBlock:
                raise
            except BaseException as e:
                return ("exc", e)
            # the body is suspended at `yield req`
            in_nonasync = "nonasync" in fr.ctxs
            leaves = []
            self._collect(req, leaves)
            if in_nonasync:
                self.noflush += 1
                try:
                    for leaf in leaves:
                        self.resolve(leaf)
                except _WouldBlock:
                    gen.close()
                    self.aborted.add(fr.path)
                    return ("exc", NonAsyncAbort())
                finally:
                    self.noflush -= 1
            else:
                for leaf in leaves:
                    self.resolve(leaf)
            try:
                send = self.unwrap(req)
                throw = None
            except BaseException as e:
                send = None
                throw = e

    def _collect(self, struct, out):
        if isinstance(struct, RefLeaf):
            out.append(struct)
        elif type(struct) in (tuple, list):
            for s in struct:
                self._collect(s, out)
        elif type(struct) is dict:
            for s in struct.values():
                self._collect(s, out)

    def sync_shared(self, fr, st):
        sid = st[1]
        if sid in self.shared:
            leaf = self.shared[sid]
        else:
            leaf = RefLeaf("shared", ["shared", sid], 0)
            leaf.obj = leaf
            leaf.inst = (fr.path, "ss", sid)
            leaf.frame = Frame(self.prog["shared"][sid], ("S", sid), fr)
            self.shared[sid] = leaf
        self.resolve(leaf)
        if leaf.outcome[0] == "val":
            return leaf.outcome[1]
        raise leaf.outcome[1]

    def cancel_batch(self, fr, st):
        pass  # which requests it hits depends on the schedule: outcomes come from the observed table

    def sync_item(self, fr, st):
        _, site, kind, key = st
        inst = (fr.path, "s", site)
        self.items.append(("item", kind, key, inst))
        o = self.item_outcome(kind, key, inst)
        if o[0] == "val":
            return o[1]
        raise o[1]

    def sync_call(self, fr, st):
        _, site, nid, how = st
        callee = Frame(nid, fr.path + (site,), fr)
        o = self.eval_frame(callee)
        if o[0] == "val":
            return o[1]
        raise o[1]

    def run(self):
        root = Frame(self.prog.get("root", 0), (), None)
        o = self.eval_frame(root)
        if o[0] == "val":
            return ("val", o[1])
        return ("exc", desc_of(o[1]))


def evaluate(prog, observed_items=None):
    rt = RefRT(prog, observed_items)
    out = rt.run()
    return out, rt


# ---------------------------------------------------------------------------
# Driver B: round-based evaluation ("run everything runnable, then answer
# every outstanding request at once").  Used for the maximal-batching oracle
# of yield-only, single-batch-kind programs: flush i must carry exactly the
# requests of round i.


def evaluate_rounds(prog):
    rt = RefRT(prog)
    done = {}  # id(frame) -> outcome
    suspended = {}  # id(frame) -> (frame, gen, req, leaves)
    started = set()
    pending = []
    rounds = []

    def leaf_outcome(leaf):
        if leaf.outcome is not None:
            return leaf.outcome
        if leaf.kind in ("call", "shared"):
            o = done.get(id(leaf.frame))
            if o is not None:
                leaf.outcome = o
            return o
        return None

    def advance(fr, gen, send, throw):
        try:
            if throw is None:
                req = gen.send(send)
            else:
                req = gen.throw(throw)
        except StopIteration as s:
            done[id(fr)] = ("val", s.value)
            return
        except RefResult as r:
            done[id(fr)] = ("val", r.value)
            return
        except BaseException as e:
            done[id(fr)] = ("exc", e)
            return
        leaves = []
        rt._collect(req, leaves)
        suspended[id(fr)] = (fr, gen, req, leaves)
        for leaf in leaves:
            if leaf.outcome is not None:
                continue
            if leaf.kind in ("call", "shared"):
                if id(leaf.frame) not in started:
                    started.add(id(leaf.frame))
                    advance(leaf.frame, rt.gen_for(leaf.frame), None, None)
            elif leaf.kind in ("item", "dbg"):
                if leaf not in pending:
                    pending.append(leaf)
            else:
                rt.resolve(leaf)

    root = Frame(prog.get("root", 0), (), None)
    started.add(id(root))
    advance(root, rt.gen_for(root), None, None)
    guard = 0
    while id(root) not in done:
        changed = True
        while changed:
            changed = False
            for key in list(suspended):
                fr, gen, req, leaves = suspended[key]
                if all(leaf_outcome(l) is not None for l in leaves):
                    del suspended[key]
                    try:
                        send = rt.unwrap(req)
                        throw = None
                    except BaseException as e:
                        send = None
                        throw = e
                    advance(fr, gen, send, throw)
                    changed = True
        if id(root) in done:
            break
        if not pending:
            raise HarnessFault("round simulator: nothing runnable and nothing pending")
        rounds.append(frozenset(l.inst for l in pending))
        for l in pending:
            rt.items.append((l.kind, l.spec[1], l.spec[2], l.inst))
            if l.kind == "dbg":
                l.outcome = ("val", ("dbg", l.spec[1], l.spec[2], l.inst))
            else:
                l.outcome = rt.item_outcome(l.spec[1], l.spec[2], l.inst)
        del pending[:]
        guard += 1
        if guard > 100000:
            raise HarnessFault("round simulator runaway")
    o = done[id(root)]
    out = ("val", o[1]) if o[0] == "val" else ("exc", desc_of(o[1]))
    return out, rounds, rt
