"""Fault enumeration over Tasklang programs: every place a failure can be
injected, singly, each with/without an enclosing try at each ancestor level."""
import copy

from . import lang


def _walk_block(block, nid, top, out_slots, out_leaves):
    for i, st in enumerate(block):
        t = top if top is not None else i
        out_slots.append((block, i, nid, t))
        op = st[0]
        if op == "yield":
            _walk_struct(st[1], nid, t, out_leaves)
        elif op == "try":
            _walk_block(st[1], nid, t, out_slots, out_leaves)
            _walk_block(st[3], nid, t, out_slots, out_leaves)
        elif op == "with":
            _walk_block(st[2], nid, t, out_slots, out_leaves)


def _walk_struct(struct, nid, top, out):
    t = struct[0]
    if t == "leaf":
        out.append((struct, nid, top))
    elif t in ("tuple", "list"):
        for s in struct[1]:
            _walk_struct(s, nid, top, out)
    else:
        for _k, s in struct[1]:
            _walk_struct(s, nid, top, out)


def index(prog):
    slots = []
    leaves = []
    for nid, node in enumerate(prog["nodes"]):
        _walk_block(node["body"], nid, None, slots, leaves)
    return slots, leaves


def positions(prog, nflushes=0):
    """All single-fault descriptors of a program."""
    slots, leaves = index(prog)
    out = []
    for n, (struct, nid, top) in enumerate(leaves):
        k = struct[1][0]
        if k == "item":
            for mode in ("error", "unset", "baseerror", "falsyerror"):
                out.append(("item", n, mode))
        out.append(("leaf", n, "err", "exc"))
        out.append(("leaf", n, "err", "base"))
        if n % 2 == 0:
            out.append(("leaf", n, "err", "falsy"))
        else:
            out.append(("leaf", n, "err", ("frozen", "tasky", "typed")[(n // 2) % 3]))
        out.append(("leaf", n, "lazy"))
        out.append(("leaf", n, "junk"))
    for n, (block, i, nid, top) in enumerate(slots):
        out.append(("raise", n, "exc"))
        if n % 3 == 0:
            out.append(("raise", n, "base"))
        if n % 3 == 1:
            out.append(("raise", n, "falsy"))
        if n % 3 == 2:
            out.append(("raise", n, ("frozen", "tasky", "typed")[(n // 3) % 3]))
    for f in range(nflushes):
        out.append(("flush", f, 0, "exc"))
        out.append(("flush", f, 1, "exc"))
        if f % 2 == 0:
            out.append(("flush", f, 1, "base"))
    return out


def callers(prog, nid):
    """(caller nid, top-level statement index) of every site referencing nid."""
    out = []
    for c, node in enumerate(prog["nodes"]):
        for i, st in enumerate(node["body"]):
            hit = False
            for s in lang.iter_stmts([st]):
                if s[0] == "yield":
                    for l in lang.iter_leaves(s[1]):
                        if (l[0] == "call" and l[2] == nid) or (l[0] == "shared" and prog["shared"][l[1]] == nid):
                            hit = True
                elif s[0] == "sync" and s[2] == nid:
                    hit = True
            if hit:
                out.append((c, i))
    return out


def _wrap(prog, nid, top, kind):
    body = prog["nodes"][nid]["body"]
    st = body[top]
    if st[0] == "try" and st[-1] == "_w":
        return
    body[top] = ["try", [st], kind, [], False, "_w"]


def apply(prog, fault, level=0, nsite=[0]):
    """Returns a mutated deep copy, or None if the fault does not apply."""
    p = copy.deepcopy(prog)
    slots, leaves = index(p)
    kind = fault[0]
    cls = "exc"
    where = None
    if kind == "item":
        struct, nid, top = leaves[fault[1]]
        l = struct[1]
        p["faults"]["%s:%s" % (l[1], l[2])] = fault[2]
        cls = "base" if fault[2] == "baseerror" else "exc"
        where = (nid, top)
    elif kind == "leaf":
        struct, nid, top = leaves[fault[1]]
        site = "f%d" % fault[1]
        if fault[2] == "err":
            struct[1] = ["err", site, fault[3]]
            cls = fault[3]
        elif fault[2] == "lazy":
            struct[1] = ["lazy", site, "raise"]
        else:
            struct[1] = ["junk", ["int", "str", "set", "nt", "obj", "nt_none", "odict", "ddict", "listsub"][fault[1] % 9]]
        where = (nid, top)
    elif kind == "raise":
        block, i, nid, top = slots[fault[1]]
        block.insert(i, ["raise", "f%d" % fault[1], fault[2]])
        cls = fault[2]
        where = (nid, top)
    elif kind == "flush":
        p["flush_faults"][str(fault[1])] = ["raise", fault[2], fault[3]]
        cls = fault[3]
        if level:
            return None
    if level and where is not None:
        tkind = "base" if cls == "base" else "exc"
        nid, top = where
        if level == 1:
            _wrap(p, nid, top, tkind)
        else:
            frontier = [nid]
            for _ in range(level - 1):
                nxt = []
                for n in frontier:
                    nxt.extend(callers(p, n))
                if not nxt:
                    return None
                targets = nxt
                frontier = [c for c, _i in nxt]
            for c, i in set(targets):
                _wrap(p, c, i, tkind)
    # a node that lost its last yield must not keep a generator-only style and vice versa
    for node in p["nodes"]:
        has = lang.node_has_yield(node)
        if has and node["style"] in ("plain", "pureplain"):
            node["style"] = "asynq"
    return p
