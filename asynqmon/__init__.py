"""asynqmon - runtime monitors for quora/asynq (see /verif/DESIGN.md)."""
