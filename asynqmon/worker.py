"""Worker process: runs one unit of one property's workload against one build.

usage: python -m asynqmon.worker <unit.json> <result.json>
The build under test is whatever comes first on PYTHONPATH; the worker checks
that asynq was really imported from there.
"""
import faulthandler
import importlib
import json
import os
import sys
import time
import traceback


def jsonable(x):
    if isinstance(x, dict):
        return {str(k): jsonable(v) for k, v in x.items()}
    if isinstance(x, (list, tuple)):
        return [jsonable(v) for v in x]
    if isinstance(x, (set, frozenset)):
        return sorted((jsonable(v) for v in x), key=repr)
    if isinstance(x, (str, int, float, bool)) or x is None:
        return x
    return repr(x)


def start_line_coverage(root):
    """First-hit line coverage of the library's own sources (pure build only): every LINE event
    records (file, line) once and disables itself, so the cost is paid once per line."""
    mon = sys.monitoring
    tool = mon.COVERAGE_ID
    hits = {}
    try:
        mon.use_tool_id(tool, "asynqmon-linecov")
    except ValueError:
        return None
    prefix = root + os.sep

    def on_line(code, line):
        fn = code.co_filename
        if fn.startswith(prefix) and "/tests/" not in fn:
            hits.setdefault(fn[len(prefix):], set()).add(line)
        return mon.DISABLE

    mon.register_callback(tool, mon.events.LINE, on_line)
    mon.set_events(tool, mon.events.LINE)
    return hits


def main():
    unit_path, out_path = sys.argv[1], sys.argv[2]
    with open(unit_path) as f:
        unit = json.load(f)
    faulthandler.enable()
    sys.setrecursionlimit(10000)
    res = {"evaluations": 0, "nontrivial": [], "counters": {}, "sets": {}, "violations": [], "faults": [], "samples": []}
    t0 = time.time()
    try:
        bdir = unit["build_dir"]
        cov = None
        if unit["build"] == "pure" and hasattr(sys, "monitoring") and os.environ.get("VERIF_LINECOV", "1") != "0":
            cov = start_line_coverage(os.path.join(os.path.realpath(bdir), "asynq"))
        import asynq
        import asynq.scheduler

        if not os.path.realpath(asynq.__file__).startswith(os.path.realpath(bdir)):
            raise RuntimeError("asynq imported from %s, expected under %s" % (asynq.__file__, bdir))
        compiled = asynq.scheduler.__file__.endswith(".so")
        if compiled != (unit["build"] == "cy"):
            raise RuntimeError("build %s but scheduler is %s" % (unit["build"], asynq.scheduler.__file__))
        mod = importlib.import_module("asynqmon.props." + unit["prop"].lower())
        prog_path = unit.get("progress")

        case_timeout = float(unit.get("case_timeout", 45))

        from asynqmon import tl as _tl

        seen = [-1]

        def on_alarm(signum, frame):
            # no bounded piece of work (program run, sequence, cell: tl.tick()) was completed during a whole
            # case_timeout: let the parent re-run the case alone. A case that is merely long keeps ticking.
            if _tl.ACTIVITY[0] != seen[0]:
                seen[0] = _tl.ACTIVITY[0]
                signal.setitimer(signal.ITIMER_REAL, case_timeout)
                signal.setitimer(signal.ITIMER_VIRTUAL, hard_timeout)
                return
            try:
                faulthandler.dump_traceback()
            finally:
                os._exit(17)

        import signal

        signal.signal(signal.SIGALRM, on_alarm)
        # A loop inside compiled code never gets back to the interpreter, so the handler above never runs: a second
        # timer on the process's own CPU time, with the DEFAULT disposition (the kernel kills the process, no
        # Python needed), is re-armed whenever Python-level code shows it is alive. The parent reads death by
        # SIGVTALRM like exit 17.
        hard_timeout = 2.5 * case_timeout
        signal.signal(signal.SIGVTALRM, signal.SIG_DFL)

        def progress(i):
            if prog_path:
                with open(prog_path, "w") as pf:
                    pf.write(str(i))
            _tl.tick()
            seen[0] = _tl.ACTIVITY[0]
            signal.setitimer(signal.ITIMER_REAL, case_timeout)
            signal.setitimer(signal.ITIMER_VIRTUAL, hard_timeout)

        r = mod.run_unit(unit, progress)
        signal.setitimer(signal.ITIMER_REAL, 0)
        signal.setitimer(signal.ITIMER_VIRTUAL, 0)
        for k in res:
            if k in r:
                res[k] = r[k]
        for k in r:
            if k not in res:
                res[k] = r[k]
        if cov is not None:
            res["linecov"] = {k: sorted(v) for k, v in cov.items()}
    except BaseException as e:
        res["faults"].append("worker crashed: %r\n%s" % (e, traceback.format_exc()[-3000:]))
    res["wall_s"] = time.time() - t0
    for v in res["violations"]:
        v.setdefault("build", unit["build"])
    tmp = out_path + ".tmp"
    with open(tmp, "w") as f:
        json.dump(jsonable(res), f)
    os.rename(tmp, out_path)


if __name__ == "__main__":
    main()
