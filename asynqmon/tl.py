"""Helpers shared by the Tasklang-driven property modules (worker side)."""
import hashlib
import itertools
import random

from . import gen, lang, ref


def case_seed(seed, prop, i):
    return int(hashlib.sha1(("%s/%s/%s" % (seed, prop, i)).encode()).hexdigest()[:12], 16)


def policies(prog, rnd, n, exhaustive_perms=False):
    """Priority policies steering the scheduler's only free choice."""
    kinds = max(1, prog.get("kinds", 1))
    perms = list(itertools.permutations(range(kinds)))
    out = [None]
    if exhaustive_perms and len(perms) <= 24:
        out.extend(("kind", list(p)) for p in perms)
    pool = []
    pool.extend(("kind", list(p)) for p in perms)
    pool.extend(("kindonly", list(p)) for p in perms)
    pool.append(("fewest",))
    pool.append(("tie",))
    for _ in range(4):
        pool.append(("rand", rnd.randrange(1 << 30), rnd.choice([2, 3, 7])))
    rnd.shuffle(pool)
    for p in pool:
        if len(out) >= n + 1:
            break
        if p not in out:
            out.append(p)
    return out


def compare_frames(rt, rrt):
    """Per-task comparison of everything each task instance received, against
    the reference. Returns a list of (path, what, expected, observed)."""
    diffs = []
    hp = set(rt.frames)
    rp = set(rrt.frames)
    if rrt.aborted:
        # children of a task aborted by a NonAsyncContext are abandoned mid-way:
        # nothing awaits them any more, so they are not part of the computation
        def under(p):
            return isinstance(p, tuple) and any(p[:n] in rrt.aborted for n in range(len(p)))

        hp = set(p for p in hp if not under(p))
        rp = set(p for p in rp if not under(p))
    for p in sorted(hp - rp, key=repr):
        diffs.append((p, "task ran only on asynq", None, rt.frames[p].received))
    for p in sorted(rp - hp, key=repr):
        diffs.append((p, "task never ran on asynq", rrt.frames[p].received, None))
    for p in hp & rp:
        a = rt.frames[p].received
        b = rrt.frames[p].received
        if a != b:
            n = 0
            while n < len(a) and n < len(b) and a[n] == b[n]:
                n += 1
            diffs.append(
                (
                    p,
                    "received[%d] differs" % n,
                    b[n] if n < len(b) else "<nothing>",
                    a[n] if n < len(a) else "<nothing>",
                )
            )
    return diffs


def digest(x):
    return hashlib.sha1(repr(x).encode()).hexdigest()[:10]


def short(x, n=600):
    s = repr(x)
    return s if len(s) <= n else s[:n] + "...<%d more>" % (len(s) - n)


def instance_count(rrt):
    return len(rrt.frames)


# ---------------------------------------------------------------------------
# generic Tasklang execution with monitors


def needs_observed_items(prog):
    if prog.get("flush_faults"):
        return True
    return any(st[0] == "cancelbatch" for node in prog["nodes"] for st in lang.iter_stmts(node["body"]))


ACTIVITY = [0]


def tick():
    """One more bounded piece of work (a program run, a sequence, a cell) was completed: the worker's
    no-progress watchdog only fires when this counter stands still."""
    ACTIVITY[0] += 1


def execute(prog, how, pol, seed, monitors, rrt_exp=None, fresh_scheduler=True, keep_deps=False):
    """Run one program once on asynq with the requested monitors installed.
    Returns (rt, out, exp, rrt)."""
    from . import harness, monitors as M

    tick()

    rt = harness.HarnessRT(prog, prio=pol, seed=seed)
    book = None
    if "resume" in monitors:
        rt.resume_probes.append(M.resume_probe)
    if "afterdone" in monitors:
        rt.step_probes.append(M.step_after_done_probe)
    if "active" in monitors:
        rt.step_probes.append(M.active_task_probe)
    if "active" in monitors or "stale" in monitors:
        rt.ctx_probes.append(lambda rt_, ctx, what: M.stale_active_probe(rt_, "context " + what))
        rt.flush_probes.append(lambda rt_, b, items: M.stale_active_probe(rt_, "flush body"))
        rt.provider_probes.append(lambda rt_: M.stale_active_probe(rt_, "value provider"))
    if "peek" in monitors:
        rt.step_probes.append(M.peek_probe)
        rt.before_probes.append(M.peek_probe)
    if "quiescence" in monitors:
        rt.before_probes.append(M.quiescence_probe)
    if "flushbook" in monitors or "flushbook_prio" in monitors:
        book = M.FlushBook(rt, "flushbook_prio" in monitors)
        rt.before_probes.append(book.on_before)
        rt.after_probes.append(book.on_after)
    if "ctxactive" in monitors:
        rt.step_probes.append(M.ctx_step_probe)
        rt.before_probes.append(M.ctx_flush_probe)
        rt.close_probes.append(M.nonasync_close_probe)
    rt.book = book
    if keep_deps:
        # debug option KEEP_DEPENDENCIES (tasks keep their dependency lists, flushed batches their items) - which
        # e.g. the library's own test-suite leaves switched on - must make no difference to any oracle
        import asynq.debug as _adebug

        old_keep = _adebug.options.KEEP_DEPENDENCIES
        _adebug.options.KEEP_DEPENDENCIES = True
        try:
            out = rt.run(how, fresh_scheduler=fresh_scheduler)
        finally:
            _adebug.options.KEEP_DEPENDENCIES = old_keep
        rt.ran_with_keep_deps = True
    else:
        out = rt.run(how, fresh_scheduler=fresh_scheduler)
    if out[0] == "exc" and out[1] and out[1][0] == "BatchingError":
        # no Tasklang statement flushes a batch by hand except through item.value(), which checks first: this
        # error can only come from the scheduler flushing a batch that is already flushed or cancelled
        rt.violation("computation-ended-with-BatchingError", {"exception": short(out[1], 200)})
    if out[0] == "exc" and out[1] and out[1][0] == "AsyncTaskError":
        # asynq's own "something is wrong with this task" error: no Tasklang statement raises it
        rt.violation("computation-ended-with-an-asynq-internal-error", {"exception": short(out[1], 200)})
    if "nesting" in monitors:
        M.nesting_check(rt)
    if book is not None:
        book.finish(rt)
    if rrt_exp is not None and not needs_observed_items(prog):
        exp, rrt = rrt_exp
    else:
        observed = None
        if needs_observed_items(prog):
            observed = dict(rt.item_done)
        try:
            exp, rrt = ref.evaluate(prog, observed)
        except lang.HarnessFault:
            if not rt.violations:
                raise
            # the run already violated an in-run oracle and went astray (requests the sequential program makes
            # were never served): report what the monitors saw, there is nothing to compare with
            return rt, out, None, None
    if "refeq" in monitors:
        if out[:2] != exp[:2]:
            rt.violation("root-outcome-differs-from-reference", {"expected": short(exp), "observed": short(out[:2])})
        for d in compare_frames(rt, rrt):
            rt.violation("task-received-differs-from-reference", {"task": d[0], "what": d[1], "expected": short(d[2]), "observed": short(d[3])})
    if "refeq" in monitors:
        for inst, n in rt.lazy_calls.items():
            rt.n_lazy_checks = getattr(rt, "n_lazy_checks", 0) + 1
            if n != 1:
                rt.violation("lazy-future-provider-ran-more-than-once", {"future": inst, "provider_calls": n})
    if "identity" in monitors and out[0] == "exc":
        e = out[2]
        tag = getattr(e, "tag", None)
        if tag is not None:
            rt.n_identity_checks = getattr(rt, "n_identity_checks", 0) + 1
            if rt.excs.get(tag) is not e:
                rt.violation("escaping-exception-is-not-the-raised-instance", {"exc": lang.exc_desc(e)})
    if "restore" in monitors:
        for name, dv in rt.defaults.items():
            rt.n_restore_checks = getattr(rt, "n_restore_checks", 0) + 1
            cur = rt.read(None, name)
            if cur != dv:
                rt.violation("override-not-restored", {"name": name, "value_after_computation": cur, "default": dv, "outcome": out[0]})
    if "order" in monitors:
        M.start_order_check(rt)
    if "orphans" in monitors:
        M.orphan_check(rt)
    if "completion" in monitors:
        M.completion_check(rt, rrt)
    return rt, out, exp, rrt


COUNTER_ATTRS = [
    "n_item_hits",
    "n_default_priority_checks",
    "n_resume_checks",
    "n_exc_resumes",
    "n_multi_fail",
    "n_active_checks",
    "n_flush_checks",
    "n_item_checks",
    "n_order_checks",
    "n_orphans",
    "n_completion_checks",
    "n_identity_checks",
    "n_restore_checks",
    "n_lazy_checks",
    "n_unchanged_checks",
    "n_peeks",
    "n_stale_active_checks",
    "n_ctx_checks",
    "n_ctx_exclusive",
    "n_ctx_must_be_paused",
    "n_ctx_shared",
    "n_na_flush_checks",
    "n_na_aborts",
    "n_nesting_events",
    "model_disagreements",
]


def harvest(rt, c):
    for a in COUNTER_ATTRS:
        v = getattr(rt, a, 0)
        if v:
            c[a] = c.get(a, 0) + v
    if rt.book is not None:
        c["flush_decisions"] = c.get("flush_decisions", 0) + rt.book.decisions
        c["flush_decisions_with_distinct_priorities"] = c.get("flush_decisions_with_distinct_priorities", 0) + rt.book.decisions_multi


def new_result():
    return {"evaluations": 0, "nontrivial": [], "counters": {}, "sets": {}, "violations": [], "faults": [], "samples": []}


def mech_of(oracle):
    return oracle


# ---------------------------------------------------------------------------
# shrinking a failing Tasklang program (for the replay file; the verdict never depends on it)


def _blocks(prog):
    """Yield every statement list of the program (node bodies and nested blocks)."""
    def walk(block):
        yield block
        for st in block:
            if st[0] == "try":
                for b in walk(st[1]):
                    yield b
                for b in walk(st[3]):
                    yield b
            elif st[0] == "with":
                for b in walk(st[2]):
                    yield b

    for node in prog["nodes"]:
        for b in walk(node["body"]):
            yield b


def _structs(prog):
    def walk(s):
        yield s
        if s[0] in ("tuple", "list"):
            for c in s[1]:
                for x in walk(c):
                    yield x
        elif s[0] == "dict":
            for _k, c in s[1]:
                for x in walk(c):
                    yield x

    for b in _blocks(prog):
        for st in b:
            if st[0] == "yield":
                for s in walk(st[1]):
                    yield s


def _candidates(prog):
    import copy

    # 1. drop a fault
    for key in ("faults", "flush_faults", "ctx_faults"):
        for k in list((prog.get(key) or {}).keys()):
            c = copy.deepcopy(prog)
            del c[key][k]
            yield c
    # 2. delete a statement / unwrap a compound statement
    nblocks = sum(1 for _ in _blocks(prog))
    for bi in range(nblocks):
        blk = list(_blocks(prog))[bi]
        for si in range(len(blk)):
            c = copy.deepcopy(prog)
            cb = list(_blocks(c))[bi]
            st = cb[si]
            del cb[si]
            yield c
            if st[0] in ("try", "with"):
                c2 = copy.deepcopy(prog)
                cb2 = list(_blocks(c2))[bi]
                inner = cb2[si][1] if st[0] == "try" else cb2[si][2]
                cb2[si : si + 1] = inner
                yield c2
    # 3. simplify yielded structures
    nst = sum(1 for _ in _structs(prog))
    for i in range(nst):
        s = list(_structs(prog))[i]
        if s[0] in ("tuple", "list", "dict"):
            kids = s[1] if s[0] != "dict" else [kv[1] for kv in s[1]]
            for j in range(len(kids)):
                c = copy.deepcopy(prog)
                cs = list(_structs(c))[i]
                del cs[1][j]
                yield c
            for j in range(len(kids)):
                c = copy.deepcopy(prog)
                cs = list(_structs(c))[i]
                kid = cs[1][j] if cs[0] != "dict" else cs[1][j][1]
                cs[:] = kid
                yield c
        elif s[0] == "leaf" and s[1][0] in ("call", "shared", "again", "lazy", "dbg", "err"):
            c = copy.deepcopy(prog)
            cs = list(_structs(c))[i]
            cs[1] = ["const", 0]
            yield c


def shrink(prog, test, max_runs=600, max_seconds=12.0):
    """Greedy structural shrinking: keep a smaller program whenever `test` still fails on it."""
    import time

    t0 = time.time()
    runs = 0
    cur = prog
    progress = True
    while progress and runs < max_runs and time.time() - t0 < max_seconds:
        progress = False
        for cand in _candidates(cur):
            if runs >= max_runs or time.time() - t0 > max_seconds:
                break
            runs += 1
            try:
                if test(cand):
                    cur = cand
                    progress = True
                    break
            except BaseException:
                continue
    return cur, runs


_shrinks_done = [0]


def shrink_for(prog, how, pol, seed, monitors, oracle):
    """Smaller program on which the same oracle still fires under the same convention and policy.
    At most one shrink per worker process: it only serves the readability of the first replay file."""
    if _shrinks_done[0] >= 1:
        return None, 0
    _shrinks_done[0] += 1
    def test(c):
        for node in c["nodes"]:
            if lang.node_has_yield(node) and node["style"] in ("plain", "pureplain"):
                node["style"] = "asynq"
        try:
            rt, _o, _e, _r = execute(c, how, pol, seed, monitors)
        except lang.HarnessFault:
            return False
        return any(v["oracle"] == oracle for v in rt.violations)

    try:
        small, runs = shrink(prog, test)
    except BaseException:
        return prog, 0
    return small, runs
