"""Helpers shared by the Tasklang-driven property modules (worker side)."""
import hashlib
import itertools
import random

from . import gen, lang, ref


def case_seed(seed, prop, i):
    return int(hashlib.sha1(("%s/%s/%s" % (seed, prop, i)).encode()).hexdigest()[:12], 16)


def policies(prog, rnd, n, exhaustive_perms=False):
    """Priority policies steering the scheduler's only free choice."""
    kinds = max(1, prog.get("kinds", 1))
    perms = list(itertools.permutations(range(kinds)))
    out = [None]
    if exhaustive_perms and len(perms) <= 24:
        out.extend(("kind", list(p)) for p in perms)
    pool = []
    pool.extend(("kind", list(p)) for p in perms)
    pool.extend(("kindonly", list(p)) for p in perms)
    pool.append(("fewest",))
    pool.append(("tie",))
    for _ in range(4):
        pool.append(("rand", rnd.randrange(1 << 30), rnd.choice([2, 3, 7])))
    rnd.shuffle(pool)
    for p in pool:
        if len(out) >= n + 1:
            break
        if p not in out:
            out.append(p)
    return out


def compare_frames(rt, rrt):
    """Per-task comparison of everything each task instance received, against
    the reference. Returns a list of (path, what, expected, observed)."""
    diffs = []
    hp = set(rt.frames)
    rp = set(rrt.frames)
    for p in sorted(hp - rp, key=repr):
        diffs.append((p, "task ran only on asynq", None, rt.frames[p].received))
    for p in sorted(rp - hp, key=repr):
        diffs.append((p, "task never ran on asynq", rrt.frames[p].received, None))
    for p in hp & rp:
        a = rt.frames[p].received
        b = rrt.frames[p].received
        if a != b:
            n = 0
            while n < len(a) and n < len(b) and a[n] == b[n]:
                n += 1
            diffs.append(
                (
                    p,
                    "received[%d] differs" % n,
                    b[n] if n < len(b) else "<nothing>",
                    a[n] if n < len(a) else "<nothing>",
                )
            )
    return diffs


def digest(x):
    return hashlib.sha1(repr(x).encode()).hexdigest()[:10]


def short(x, n=600):
    s = repr(x)
    return s if len(s) <= n else s[:n] + "...<%d more>" % (len(s) - n)


def instance_count(rrt):
    return len(rrt.frames)
