#!/venv/bin/python
"""Which executable lines of asynq/*.py does NO check's quick workload reach (pure build)?
Runs every check once with VERIF_COV_OUT (scratch dir outside /verif), unions the line sets, prints per file the
lines never executed. A guide for widening workloads: a deliberate change on such a line cannot be noticed."""
import json, os, shutil, subprocess, sys, tempfile

VERIF = os.path.dirname(os.path.dirname(os.path.abspath(__file__)))
sys.path.insert(0, VERIF)
from asynqmon.runner import executable_lines  # noqa

props = sys.argv[1:] or ["C%02d" % i for i in range(1, 21)]
d = tempfile.mkdtemp(prefix="asynqcov.")
try:
    env = dict(os.environ, VERIF_COV_OUT=d)
    procs = [subprocess.Popen([os.path.join(VERIF, "vcheck"), p, "--tier", "quick", "--no-evidence"], env=env, stdout=subprocess.DEVNULL, stderr=subprocess.DEVNULL) for p in props]
    for p in procs:
        p.wait()
    union = {}
    for fn in os.listdir(d):
        rec = json.load(open(os.path.join(d, fn)))
        for k, v in rec["lines"].items():
            union.setdefault(k, set()).update(v)
    tot = hit = 0
    for base in sorted(os.listdir("/repo/asynq")):
        if not base.endswith(".py"):
            continue
        ex = executable_lines(os.path.join("/repo/asynq", base))
        got = union.get(base, set()) & ex
        tot += len(ex)
        hit += len(got)
        miss = sorted(ex - got)
        print("%-22s %4d/%4d  missing: %s" % (base, len(got), len(ex), compress(miss) if False else ""))
        # compress runs
        runs = []
        for ln in miss:
            if runs and ln == runs[-1][1] + 1:
                runs[-1][1] = ln
            else:
                runs.append([ln, ln])
        print("    " + " ".join("%d" % a if a == b else "%d-%d" % (a, b) for a, b in runs))
    print("TOTAL %d/%d" % (hit, tot))
finally:
    shutil.rmtree(d, ignore_errors=True)
