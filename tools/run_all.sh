#!/bin/sh
# tools/run_all.sh <tier> [seed]  - run every check of MANIFEST once, print one summary line each
cd "$(dirname "$0")/.." || exit 2
TIER=${1:-quick}
SEED=${2:-0}
rc=0
for p in C01 C02 C03 C04 C05 C06 C07 C08 C09 C10 C11 C12 C13 C14 C15 C16 C17 C18 C19 C20; do
  t0=$(date +%s)
  VERIF_SEED=$SEED ./vcheck $p --tier $TIER $3 > /tmp/run_all_$p.log 2>&1
  e=$?
  [ $e -ne 0 ] && rc=1
  echo "$p exit=$e $(( $(date +%s) - t0 ))s $(grep "^$p " /tmp/run_all_$p.log | cut -c1-170)"
  grep "VIOLATION\|INCONCLUSIVE\|KNOWN-FINDING\|oracle=" /tmp/run_all_$p.log | cut -c1-300 | head -6
done
exit $rc
