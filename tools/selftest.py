#!/venv/bin/python
"""Apply each mutant (mutants/*.diff or seeded/*/patch.diff) to a scratch copy of
/repo (outside /repo and /verif), run the named properties' quick checks
against it with --repo, and report which fire.  Scratch copies are removed."""
import concurrent.futures, glob, os, re, shutil, subprocess, sys, tempfile, time

VERIF = os.path.dirname(os.path.dirname(os.path.abspath(__file__)))


def scratch_copy():
    d = tempfile.mkdtemp(prefix="asynqmut.")
    subprocess.check_call(
        ["rsync", "-a", "--exclude", ".git", "--exclude", "*.so", "--exclude", "*.c", "--exclude", "__pycache__", "--exclude", "build", "/repo/", d + "/"]
    )
    return d


SEEDS = [None]


def run_one(path, props, tier, extra):
    d = scratch_copy()
    try:
        patch = open(path).read()
        p = subprocess.run(["patch", "-p1", "-s", "-d", d], input=patch.encode(), stdout=subprocess.PIPE, stderr=subprocess.STDOUT)
        if p.returncode != 0:
            return path, {"*": "PATCH FAILED: " + p.stdout.decode()[-300:]}
        out = {}
        for prop in props:
            env = dict(os.environ)
            env.pop("ASYNQ_VERIF_BUILD_CACHE", None)
            cache = os.path.join(d, ".cache")
            os.makedirs(cache, exist_ok=True)
            env["ASYNQ_VERIF_BUILD_CACHE"] = cache
            t0 = time.time()
            codes = []
            m = []
            txt = ""
            for sd in SEEDS:
                if sd is not None:
                    env["VERIF_SEED"] = str(sd)
                r = subprocess.run([os.path.join(VERIF, "vcheck"), prop, "--tier", tier, "--repo", d, "--no-evidence"] + extra, stdout=subprocess.PIPE, stderr=subprocess.STDOUT, env=env)
                txt = r.stdout.decode("utf-8", "replace")
                m += re.findall(r"oracle=(\S+) mechanism=(\S+) build=(\S+)", txt)
                codes.append(r.returncode)
            rc = 1 if all(c == 1 for c in codes) else (codes[0] if len(set(codes)) == 1 else 0)
            seeds_note = "" if SEEDS == [None] else " caught on %d/%d seeds" % (sum(1 for c in codes if c == 1), len(codes))
            out[prop] = "exit=%d %.0fs%s %s" % (rc, time.time() - t0, seeds_note, sorted(set(m))[:4] if m else txt.strip().splitlines()[-2:][0][:200] if txt.strip() else "")
        return path, out
    finally:
        shutil.rmtree(d, ignore_errors=True)


def main():
    args = [a for a in sys.argv[1:] if not a.startswith("--")]
    tier = "quick"
    allprops = None
    extra = []
    for a in sys.argv[1:]:
        if a.startswith("--tier="):
            tier = a.split("=")[1]
        if a.startswith("--props="):
            allprops = a.split("=")[1].split(",")
        if a.startswith("--scale="):
            extra += ["--scale", a.split("=")[1]]
        if a.startswith("--seeds="):
            SEEDS[:] = [int(x) for x in a.split("=")[1].split(",")]
    paths = []
    for a in args:
        if os.path.isfile(a):
            paths.append(a)
        else:
            paths.extend(sorted(glob.glob(os.path.join(VERIF, "mutants", a + ".diff"))))
            paths.extend(sorted(glob.glob(os.path.join(VERIF, "seeded", a, "patch.diff"))))
    if not args:
        paths = sorted(glob.glob(os.path.join(VERIF, "mutants", "*.diff"))) + sorted(glob.glob(os.path.join(VERIF, "seeded", "*", "patch.diff")))
    jobs = []
    for p in paths:
        props = allprops
        if props is None:
            first = open(p).readline()
            m = re.match(r"# props: (.*)", first)
            if m:
                props = m.group(1).split(",")
            else:
                meta = os.path.join(os.path.dirname(p), "meta.json")
                import json
                md = json.load(open(meta)) if os.path.exists(meta) else {}
                props = md.get("checked_by") or ([md["property"]] if md else [])
        jobs.append((p, [x.strip() for x in props]))
    ok = True
    record = "--record" in sys.argv
    table = []
    with concurrent.futures.ThreadPoolExecutor(max_workers=4) as ex:
        for path, out in ex.map(lambda j: run_one(j[0], j[1], tier, extra), jobs):
            name = os.path.relpath(path, VERIF)
            for prop, r in out.items():
                caught = r.startswith("exit=1")
                ok = ok and caught
                print("%-45s %-4s %s %s" % (name, prop, "CAUGHT" if caught else "MISSED", r))
                sys.stdout.flush()
                oracles = sorted(set(re.findall(r"\('([^']+)', '[^']+', '(?:cy|pure)'\)", r)))
                table.append((name, prop, caught, oracles))
                if record and name.startswith("seeded/"):
                    import json
                    mp = os.path.join(VERIF, os.path.dirname(name), "meta.json")
                    meta = json.load(open(mp))
                    cb = [c for c in meta.get("caught_by", []) if not c.startswith(prop + " ")]
                    cb.append("%s quick: %s" % (prop, ("caught by oracle(s) " + ", ".join(oracles)) if caught else "MISSED"))
                    meta["caught_by"] = cb
                    json.dump(meta, open(mp, "w"), indent=1)
    if record and "--merge" in sys.argv:
        # keep the rows of changes that were not run again (and still exist), replace those that were
        rerun = set(name for name, _p, _c, _o in table)
        try:
            for line in open(os.path.join(VERIF, "SELFTEST.md")):
                m = re.match(r"\| (\S+) \| (\S+) \| (caught|MISSED) \| (.*) \|$", line.rstrip("\n"))
                if m and m.group(1) not in rerun and os.path.exists(os.path.join(VERIF, m.group(1))):
                    table.append((m.group(1), m.group(2), m.group(3) == "caught", [o for o in m.group(4).split(", ") if o]))
        except IOError:
            pass
    if record:
        with open(os.path.join(VERIF, "SELFTEST.md"), "w") as f:
            f.write("# Self-test: which check catches which deliberate change\n\n")
            f.write("Produced by `tools/selftest.py --record` (each change applied to a scratch copy of /repo, the named property's quick check run with --repo; exit 1 = caught). A MISSED row for a change's own property comes with a caught row for the property whose check is its catcher (`checked_by` in its meta.json; DESIGN.md 9.5 says why).\n\n")
            f.write("| change | property | result | oracle(s) that fired |\n|---|---|---|---|\n")
            for name, prop, caught, oracles in sorted(table):
                f.write("| %s | %s | %s | %s |\n" % (name, prop, "caught" if caught else "MISSED", ", ".join(oracles)))
    sys.exit(0 if ok else 1)


if __name__ == "__main__":
    main()
