#!/venv/bin/python
"""Create mutants/<name>.diff: tools/mkmutant.py <name> <props> <file> <<< 'OLD\n=====\nNEW'
(old/new text read from stdin separated by a line of =====)."""
import difflib, os, sys
name, props, rel = sys.argv[1:4]
old, new = sys.stdin.read().split("\n=====\n")
new = new.rstrip("\n") if not old.endswith("\n") else new
src = open(os.path.join("/repo", rel)).read()
if src.count(old) != 1:
    sys.exit("old text occurs %d times in %s" % (src.count(old), rel))
dst = src.replace(old, new)
diff = "".join(difflib.unified_diff(src.splitlines(True), dst.splitlines(True), "a/" + rel, "b/" + rel))
out = os.path.join(os.path.dirname(os.path.dirname(os.path.abspath(__file__))), "mutants", name + ".diff")
mode = "a" if os.path.exists(out) and "--append" in sys.argv else "w"
with open(out, mode) as f:
    if mode == "w":
        f.write("# props: %s\n" % props)
    f.write(diff)
print("wrote", out)
