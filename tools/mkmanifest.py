#!/venv/bin/python
"""Regenerate MANIFEST.json from the table below (single source of truth)."""
import json, os

VERIF = os.path.dirname(os.path.dirname(os.path.abspath(__file__)))

TRUST = "Trusted: CPython 3.12, Cython 3.3, qcore, the harness (asynqmon) and its reference models. Held-on-observed only: workloads are sampled (seeded), not all programs/schedules."

CHECKS = {
    "C01": dict(
        level="exploration",
        technique="runtime monitoring: differential oracle (sequential reference interpreter) over seeded random programs x flush orders x calling conventions x 2 builds",
        text="Every generated program is executed on the real library (pure and Cython builds rebuilt from the working tree) under 4 calling conventions and several get_priority() policies; the root outcome, everything every task received at every yield, every scoped-value read and the post-run restore state must equal a sequential depth-first reference evaluation of the same program text.",
        note=TRUST + " Generated bodies are side-effect free apart from contexts.",
        design="4 C01",
    ),
    "C02": dict(
        level="fault_enumeration",
        technique="runtime monitoring with fault injection: exhaustive single-fault enumeration per base program, in-run resume probes (identity of delivered exception, siblings computed), reference differential",
        text="For each seeded base program every single fault position (failing leaf of each kind at each structure position, each item errored/unset, a raise before each statement, each flush raising) x try/except at 4 ancestor levels is executed; a probe at the moment of delivery checks all siblings are computed and the delivered object IS error() of the first failing future in structure order; outcomes equal the reference; escaping exception is the raised instance.",
        note=TRUST + " Single faults are exhaustive per base; bases and pairs are sampled.",
        design="4 C02",
    ),
    "C03": dict(
        level="exploration",
        technique="runtime monitoring: in-run resume probes + event-log oracles (start order, exactly-once by unique values, orphans never start) + closed-form deep/wide workloads with watchdog",
        text="Random DAG programs with shared tasks, re-yielded futures and orphans under several flush orders: no resume while a yielded future is uncomputed, no step after completion, written start order of fresh siblings, per-task step counts and values equal the reference, all awaited tasks computed; chains up to 250000 tasks deep and fans of 10000 siblings with exact oracles; termination as bounded progress.",
        note=TRUST + " Termination is restated as exact step counts plus a watchdog with re-run-alone protocol; depth sampled to 250000.",
        design="4 C03",
    ),
    "C04": dict(
        level="exploration",
        technique="runtime monitoring: quiescence invariant evaluated inside on_before_batch_flush + independent round-based simulator for flush sets",
        text="On yield-only programs, at every flush every reachable task must have started, none may be runnable, each must block only on tasks/unflushed items; for single-kind programs the sequence of flushed item sets must equal the rounds of an independent maximal-batching simulator; balanced trees flush once, chains of n flush n times.",
        note=TRUST,
        design="4 C04",
    ),
    "C05": dict(
        level="exploration",
        technique="runtime monitoring: flush bookkeeping on public before/after events and harness batches, priority oracle over harness-derived pending set, injected failing flush() calls",
        text="Per batch at most one before event and one flush body, never empty/finished; flushed batch has the maximal get_priority() among batches some reachable task waits for (yield-only programs); no flush after the awaited (also nested sync) computation finished; every item completed exactly once by its own flush with what that flush set; before/after paired even when flush() itself raises (3 injected ways).",
        note=TRUST,
        design="4 C05",
    ),
    "C06": dict(
        level="exploration",
        technique="runtime monitoring: per-context alternation automaton + activity invariant evaluated at every task step and flush from the live awaiting graph",
        text="At every task step and flush each live AsyncContext must be active if its owner runs or a running task is reachable only through its owner, and paused if its owner awaits no running task; strict resume/pause alternation from entry to exit on every exit path; NonAsyncContext fails a task iff it is really blocked on an unflushed item, and outcomes equal the reference's prediction.",
        note=TRUST + " Contexts of tasks with several awaiting parents are unconstrained while shared descendants run.",
        design="4 C06",
    ),
    "C07": dict(
        level="exploration",
        technique="runtime monitoring: stack automaton over the global resume/pause log + reads vs. reference override stack + post-run restore check",
        text="Programs with nested/concurrent overrides of the same scoped values and attributes in many pending tasks: every read equals the reference's dynamic override stack, the global activation sequence is well parenthesised, and all values are restored after value or exception outcomes, under all flush orders and both builds.",
        note=TRUST + " No shared tasks (no unique sequential answer under them).",
        design="4 C07",
    ),
}

NOT_BUILT = "check not built yet in this session (work in progress; the design in DESIGN.md section 4 applies)"


def main():
    props = [json.loads(l) for l in open(os.path.join(VERIF, "properties.jsonl"))]
    checks = []
    na = []
    for p in props:
        pid = p["id"]
        c = CHECKS.get(pid)
        if c is None:
            na.append({"property_id": pid, "reason": NOT_BUILT})
            continue
        checks.append(
            {
                "property_id": pid,
                "quick_cmd": "./vcheck %s --tier quick" % pid,
                "thorough_cmd": "./vcheck %s --tier thorough" % pid,
                "evidence_file": "evidence/%s.json" % pid,
                "replay_cmd_template": "./vcheck %s --replay {path}" % pid,
                "engine": "asynqmon",
                "level_claimed": {"category": c["level"], "text": c["text"], "design_ref": "DESIGN.md section " + c["design"]},
                "level_note": c["note"],
                "technique": c["technique"],
            }
        )
    m = {
        "version": 1,
        "setup_cmd": "/venv/bin/python -c \"import sys; sys.path.insert(0, '.'); import asynqmon.runner, asynqmon.gen, asynqmon.ref, asynqmon.lang\"",
        "hooks": {
            "guard": "ASYNQ_VERIF",
            "enable": "no hooks were added to quora/asynq: every monitor observes through user-level subclasses of public base classes and public events; the guard name is reserved and unused",
            "baseline_off_cmd": "cd /repo && /venv/bin/python -m pytest -ra -q -p no:cacheprovider --timeout=900 --continue-on-collection-errors",
            "source_commits": [],
            "add_only": True,
        },
        "engines": [
            {
                "name": "asynqmon",
                "path": "asynqmon/",
                "serves_properties": sorted(CHECKS),
                "kind_free_text": "runtime monitors: seeded workload generators, a reference interpreter / reference state machines, event-log oracles and in-run invariant probes, run against pure-Python and Cython builds rebuilt from /repo's working tree",
            }
        ],
        "checks": checks,
        "not_applicable": na,
        "notes": "exit 0 = held on everything observed; exit 1 = VIOLATION line (not listed in known_findings.json); exit 2 = inconclusive (build failure, harness fault, or a reach counter is zero). VERIF_SEED selects the workload seed.",
    }
    with open(os.path.join(VERIF, "MANIFEST.json"), "w") as f:
        json.dump(m, f, indent=1)
    print("checks:", len(checks), "not_applicable:", len(na))


if __name__ == "__main__":
    main()
