#!/venv/bin/python
"""Regenerate MANIFEST.json from the table below (single source of truth)."""
import json, os

VERIF = os.path.dirname(os.path.dirname(os.path.abspath(__file__)))

CHECKS = {
    "C01": dict(
        level="exploration",
        technique="runtime monitoring: differential oracle (sequential reference interpreter) over seeded random programs x flush orders x calling conventions x 2 builds",
        text="Every generated program is executed on the real library (pure and Cython builds rebuilt from the working tree) under 4 calling conventions and several get_priority() policies; the root outcome and everything every task received at every yield must equal a sequential depth-first reference evaluation of the same program text. Held-on-observed only: programs are sampled, not enumerated.",
        note="Trusted: CPython/Cython/qcore, the 150-line reference evaluator, and that generated bodies are side-effect free apart from contexts.",
        design="4 C01",
    ),
}

NOT_BUILT = "check not built yet in this session (work in progress; the design in DESIGN.md section 4 applies)"


def main():
    props = [json.loads(l) for l in open(os.path.join(VERIF, "properties.jsonl"))]
    checks = []
    na = []
    for p in props:
        pid = p["id"]
        c = CHECKS.get(pid)
        if c is None:
            na.append({"property_id": pid, "reason": NOT_BUILT})
            continue
        checks.append(
            {
                "property_id": pid,
                "quick_cmd": "./vcheck %s --tier quick" % pid,
                "thorough_cmd": "./vcheck %s --tier thorough" % pid,
                "evidence_file": "evidence/%s.json" % pid,
                "replay_cmd_template": "./vcheck %s --replay {path}" % pid,
                "engine": "asynqmon",
                "level_claimed": {"category": c["level"], "text": c["text"], "design_ref": "DESIGN.md section " + c["design"]},
                "level_note": c["note"],
                "technique": c["technique"],
            }
        )
    m = {
        "version": 1,
        "setup_cmd": "/venv/bin/python -c \"import sys; sys.path.insert(0, '.'); import asynqmon.runner, asynqmon.gen, asynqmon.ref, asynqmon.lang\"",
        "hooks": {
            "guard": "ASYNQ_VERIF",
            "enable": "no hooks were added to quora/asynq: every monitor observes through user-level subclasses of public base classes and public events; the guard name is reserved and unused",
            "baseline_off_cmd": "cd /repo && /venv/bin/python -m pytest -ra -q -p no:cacheprovider --timeout=900 --continue-on-collection-errors",
            "source_commits": [],
            "add_only": True,
        },
        "engines": [
            {
                "name": "asynqmon",
                "path": "asynqmon/",
                "serves_properties": sorted(CHECKS),
                "kind_free_text": "runtime monitors: seeded workload generators, a reference interpreter / reference state machines, event-log oracles and in-run invariant probes, run against pure-Python and Cython builds rebuilt from /repo's working tree",
            }
        ],
        "checks": checks,
        "not_applicable": na,
        "notes": "exit 0 = held on everything observed; exit 1 = VIOLATION line (not listed in known_findings.json); exit 2 = inconclusive (build failure, harness fault, or a reach counter is zero). VERIF_SEED selects the workload seed.",
    }
    with open(os.path.join(VERIF, "MANIFEST.json"), "w") as f:
        json.dump(m, f, indent=1)
    print("checks:", len(checks), "not_applicable:", len(na))


if __name__ == "__main__":
    main()
