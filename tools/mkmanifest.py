#!/venv/bin/python
"""Regenerate MANIFEST.json from the table below (single source of truth)."""
import json, os

VERIF = os.path.dirname(os.path.dirname(os.path.abspath(__file__)))

TRUST = "Trusted: CPython 3.12, Cython 3.3, qcore, the harness (asynqmon) and its reference models. Held-on-observed only: workloads are sampled (seeded), not all programs/schedules."

CHECKS = {
    "C01": dict(
        level="exploration",
        technique="runtime monitoring: differential oracle (sequential reference interpreter) over seeded random programs x flush orders x calling conventions x 2 builds",
        text="Every generated program is executed on the real library (pure and Cython builds rebuilt from the working tree) under 4 calling conventions and several get_priority() policies; the root outcome, everything every task received at every yield, every scoped-value read and the post-run restore state must equal a sequential depth-first reference evaluation of the same program text.",
        note=TRUST + " Generated bodies are side-effect free apart from contexts.",
        design="4 C01",
    ),
    "C02": dict(
        level="fault_enumeration",
        technique="runtime monitoring with fault injection: exhaustive single-fault enumeration per base program, in-run resume probes (identity of delivered exception, siblings computed), reference differential",
        text="For each seeded base program every single fault position (failing leaf of each kind at each structure position, each item errored/unset, a raise before each statement, each flush raising) x try/except at 4 ancestor levels is executed; a probe at the moment of delivery checks all siblings are computed and the delivered object IS error() of the first failing future in structure order; outcomes equal the reference; escaping exception is the raised instance.",
        note=TRUST + " Single faults are exhaustive per base; bases and pairs are sampled.",
        design="4 C02",
    ),
    "C03": dict(
        level="exploration",
        technique="runtime monitoring: in-run resume probes + event-log oracles (start order, exactly-once by unique values, orphans never start) + closed-form deep/wide workloads with watchdog",
        text="Random DAG programs with shared tasks, re-yielded futures and orphans under several flush orders: no resume while a yielded future is uncomputed, no step after completion, written start order of fresh siblings, per-task step counts and values equal the reference, all awaited tasks computed; chains up to 250000 tasks deep and fans of 10000 siblings with exact oracles; termination as bounded progress.",
        note=TRUST + " Termination is restated as exact step counts plus a watchdog with re-run-alone protocol; depth sampled to 250000.",
        design="4 C03",
    ),
    "C04": dict(
        level="exploration",
        technique="runtime monitoring: quiescence invariant evaluated inside on_before_batch_flush + independent round-based simulator for flush sets",
        text="On yield-only programs, at every flush every reachable task must have started, none may be runnable, each must block only on tasks/unflushed items; for single-kind programs the sequence of flushed item sets must equal the rounds of an independent maximal-batching simulator; balanced trees flush once, chains of n flush n times.",
        note=TRUST,
        design="4 C04",
    ),
    "C05": dict(
        level="exploration",
        technique="runtime monitoring: flush bookkeeping on public before/after events and harness batches, priority oracle over harness-derived pending set, injected failing flush() calls",
        text="Per batch at most one before event and one flush body, never empty/finished; flushed batch has the maximal get_priority() among batches some reachable task waits for (yield-only programs); no flush after the awaited (also nested sync) computation finished; every item completed exactly once by its own flush with what that flush set; before/after paired even when flush() itself raises (3 injected ways).",
        note=TRUST,
        design="4 C05",
    ),
    "C06": dict(
        level="exploration",
        technique="runtime monitoring: per-context alternation automaton + activity invariant evaluated at every task step and flush from the live awaiting graph",
        text="At every task step and flush each live AsyncContext must be active if its owner runs or a running task is reachable only through its owner, and paused if its owner awaits no running task; strict resume/pause alternation from entry to exit on every exit path; NonAsyncContext fails a task iff it is really blocked on an unflushed item, and outcomes equal the reference's prediction.",
        note=TRUST + " Contexts of tasks with several awaiting parents are unconstrained while shared descendants run.",
        design="4 C06",
    ),
    "C07": dict(
        level="exploration",
        technique="runtime monitoring: stack automaton over the global resume/pause log + reads vs. reference override stack + post-run restore check",
        text="Programs with nested/concurrent overrides of the same scoped values and attributes in many pending tasks: every read equals the reference's dynamic override stack, the global activation sequence is well parenthesised, and all values are restored after value or exception outcomes, under all flush orders and both builds.",
        note=TRUST + " Reads are not placed under tasks awaited by several parents (no unique sequential answer there).",
        design="4 C07",
    ),
    "C08": dict(
        level="fault_enumeration",
        technique="runtime monitoring over histories: in-body active-task probes, post-computation cleanliness checks on public scheduler state, canary differential against a fresh scheduler, fault injection of every failure class",
        text="Histories of 3-10 computations on one never-reset scheduler, each with failures from every class (task steps, items, flushes, lazy futures, context resume/pause, before-flush subscribers, NonAsync aborts, recursion-guard trips at top level and inside nested sync calls): get_active_task() is the running task at every step and after every nested call, None afterwards; the scheduler shows 0 tasks / no active task after every computation; a canary computation run next has exactly the trace it has on a fresh scheduler.",
        note=TRUST + " BaseException failures are outside the statement and not injected.",
        design="4 C08",
    ),
    "C09": dict(
        level="exploration",
        technique="runtime monitoring: exhaustive enumeration of the decorator x binding x argument-pattern x body matrix, differential against a plain-Python twin",
        text="Every cell of the finite matrix (10 decorator kinds x up to 10 bindings incl. falsy instances and subclasses x 6 argument patterns x 3 body kinds = 1422 cells) is executed under 6-8 calling conventions and compared with a plain-Python twin (sync_fn's twin for the sync call); classification helpers are compared with how the object can actually be called. The matrix is enumerated completely on both builds.",
        note=TRUST + " The matrix itself is a finite sample of 'every kind of callable'.",
        design="4 C09",
    ),
    "C10": dict(
        level="exploration",
        technique="runtime monitoring: explicit reference state machine, exhaustive operation sequences up to length 4/5 over 12 future kinds plus random longer ones",
        text="All operation sequences up to length 4 (thorough 5) over 9 operations on 12 future kinds, and random sequences up to length 15: every result/exception, error-instance identity, provider/body run counts and per-completion subscriber notifications must match the reference state machine.",
        note=TRUST + " Re-running consumed tasks/batches after reset_unsafe() is not modelled.",
        design="4 C10",
    ),
    "C11": dict(
        level="exploration",
        technique="runtime monitoring: reference batch state machine, exhaustive operation sequences x flush-body modes, also on the built-in DebugBatch",
        text="All sequences up to length 4 (thorough 5) over 10 operations x 8 flush-body modes on a BatchBase subclass and on DebugBatch: results/exceptions, flush-body run counts, items complete before the batch announces completion, leftover items get the flush error instance / not-set AssertionError, items created during the flush join a fresh pending batch.",
        note=TRUST,
        design="4 C11",
    ),
    "C12": dict(
        level="exploration",
        technique="runtime monitoring: model key -> in-flight task maintained from returned objects and on_computed events; identity and execution-count oracles over seeded call histories x flush orders",
        text="Random histories of calls (6 spellings, 5 callables incl. methods on two instances and a static method), awaits, flush-passing waits, dirty() and synchronous self re-entry across 2-6 pending actors: a call from outside the running body returns the in-flight task (identity) or a fresh one; one body execution per awaited task; identical value/error object for all awaiters.",
        note=TRUST + " Calls issued while the in-flight task's own step is on the stack are unconstrained.",
        design="4 C12",
    ),
    "C13": dict(
        level="exploration",
        technique="runtime monitoring: reference LRU / per-instance / refresh-time caches, hit-or-miss read off fresh tokens and the execution log, scripted clock",
        text="Sequential call histories over small key spaces in 6 argument spellings against alru_cache (function, method, key_fn), acached_per_instance (instances dropped and collected) and alazy_constant (ttl with scripted clock, dirty()): each call must be the reference cache's hit (no body run, stored value) or miss (one body run, fresh value), raising bodies are not cached, eviction follows LRU with recency update.",
        note=TRUST + " Clock never sits on a ttl boundary.",
        design="4 C13",
    ),
    "C14": dict(
        level="exploration",
        technique="runtime monitoring: differential against Python builtins with identity comparison; flush counting; exhaustive (k, max_tries) grid for aretry",
        text="Seeded inputs (unorderable distinguishable elements, duplicates, equal keys, None, numerically equal values) as list/tuple/iterator/generator with blocking or non-blocking async keys: each helper must return what the builtin returns with the synchronous twin (element identity) or raise the same exception type, in exactly one flush; aretry over the full 6x5 grid.",
        note=TRUST + " Inputs that are bad in two independent ways may surface either error.",
        design="4 C14",
    ),
    "C17": dict(
        level="exploration",
        technique="runtime monitoring: differential against the sequential list of Values, consumption counter inside the generator body, guard/exhaustion probes",
        text="Random generator bodies (awaits of items/tasks/structures, Values, trailing awaits, nested generators): list_of_generator, take_first for every n in 0..len+2 with the body's own operation counter, repeated take_first, END marker never leaking, RuntimeError on each premature advance, StopIteration on each advance after exhaustion.",
        note=TRUST,
        design="4 C17",
    ),
    "C19": dict(
        level="exploration",
        technique="runtime monitoring: exhaustive enumeration of the target x replacement x activation x exit x composition matrix with recording replacements",
        text="Every cell of the finite matrix (5 targets x 6 replacements x 4 activations incl. class decoration x exit paths x single/nested/sequential x patch/patch.object = 1350 cells): the four conventions reach the replacement once each with the same recorded arguments and equal results; non-callables installed as is; owner.__dict__ entry is the original after every exit path.",
        note=TRUST + " unittest.mock is trusted.",
        design="4 C19",
    ),
    "C15": dict(
        level="exploration",
        technique="runtime monitoring: three-way differential (asyncio.run(fn.asyncio()) vs fn() vs sequential reference), delivery-time probes, concurrent observer coroutine for the mode flag",
        text="Batch-free programs in 9 calling styles (incl. explicit asyncio_fn): asyncio outcome and everything each task received equal the asynq run and the reference; at every exception delivery all awaited tasks of that yield have finished; is_asyncio_mode() is False before/after (also on failure) and in a concurrent observer coroutine; a plain sync call inside raises RuntimeError.",
        note=TRUST + " Restricted to what resolve_awaitables supports (no items, ErrorFuture, lazy Future, result(), contexts).",
        design="4 C15",
    ),
    "C16": dict(
        level="exploration",
        technique="runtime monitoring under real threads: per-thread digests vs solo runs, ownership probes at every hook, switch interval 1e-6 s plus injected yields; switches and interleavings counted",
        text="2/4/8/16 threads run seeded programs, a shared-arguments deduplicate scenario and (separately) COLLECT_PERF_STATS concurrently: each thread's per-round digest (outcome, full event log, dedup executions, profiler entries) equals its solo run; every step/flush/priority/context callback runs on its owner thread with its own scheduler and active task; DebugBatches and deduplicated tasks are never shared.",
        note=TRUST + " OS interleavings are sampled, not enumerated; evidence reports switches observed.",
        design="4 C16",
    ),
    "C18": dict(
        level="exploration",
        technique="runtime monitoring: traceback/stack oracles on generated chains, differential + structural oracle for filter_traceback, totality probes (str/repr/dump) at in-step, in-flush and post-run points",
        text="Generated chains up to depth 12 (thorough 60) with raises, re-raises and batch awaits: traceback user frames are exactly lvl0..lvl(d-1) ending at the raising frame, format_asynq_stack lists the creator chain; filter_traceback equals an independent reference on assembled texts incl. partial runs at the very end; format_error total over error kinds x tb x highlight x filter; str/repr/debug.str/debug.repr/dump of every object kind in every state never raise nor compute anything.",
        note=TRUST + " pygments trusted.",
        design="4 C18",
    ),
    "C20": dict(
        level="exploration",
        technique="runtime monitoring: full event-log differential of each program under default options vs option subsets (each single option, all, random), scripted profiling clock, captured diagnostics",
        text="Programs with sync re-entry, synchronous item.value(), failures and several batch kinds (unique priorities => deterministic default trace) are re-run under option subsets of the 19 boolean debug options, with dump interval 0 and a scripted clock reporting 1 us..3 h per call when profiling: outcome and the complete harness event log must be identical, on both builds; per-option reach is shown by captured diagnostic bytes / profiler entries.",
        note=TRUST + " Programs whose default trace is not reproducible are skipped and counted.",
        design="4 C20",
    ),
}

NOT_BUILT = "check not built yet in this session (work in progress; the design in DESIGN.md section 4 applies)"


def main():
    props = [json.loads(l) for l in open(os.path.join(VERIF, "properties.jsonl"))]
    checks = []
    na = []
    for p in props:
        pid = p["id"]
        c = CHECKS.get(pid)
        if c is None:
            na.append({"property_id": pid, "reason": NOT_BUILT})
            continue
        checks.append(
            {
                "property_id": pid,
                "quick_cmd": "./vcheck %s --tier quick" % pid,
                "thorough_cmd": "./vcheck %s --tier thorough" % pid,
                "evidence_file": "evidence/%s.json" % pid,
                "replay_cmd_template": "./vcheck %s --replay {path}" % pid,
                "engine": "asynqmon",
                "level_claimed": {"category": c["level"], "text": c["text"], "design_ref": "DESIGN.md section " + c["design"]},
                "level_note": c["note"],
                "technique": c["technique"],
            }
        )
    m = {
        "version": 1,
        "setup_cmd": "/venv/bin/python -c \"import sys; sys.path.insert(0, '.'); import asynqmon.runner, asynqmon.gen, asynqmon.ref, asynqmon.lang\"",
        "hooks": {
            "guard": "ASYNQ_VERIF",
            "enable": "no hooks were added to quora/asynq: every monitor observes through user-level subclasses of public base classes and public events; the guard name is reserved and unused",
            "baseline_off_cmd": "cd /repo && /venv/bin/python -m pytest -ra -q -p no:cacheprovider --timeout=900 --continue-on-collection-errors",
            "source_commits": [],
            "add_only": True,
        },
        "engines": [
            {
                "name": "asynqmon",
                "path": "asynqmon/",
                "serves_properties": sorted(CHECKS),
                "kind_free_text": "runtime monitors: seeded workload generators, a reference interpreter / reference state machines, event-log oracles and in-run invariant probes, run against pure-Python and Cython builds rebuilt from /repo's working tree",
            }
        ],
        "checks": checks,
        "not_applicable": na,
        "notes": "exit 0 = held on everything observed; exit 1 = VIOLATION line (not listed in known_findings.json); exit 2 = inconclusive (build failure, harness fault, or a reach counter is zero). VERIF_SEED selects the workload seed.",
    }
    with open(os.path.join(VERIF, "MANIFEST.json"), "w") as f:
        json.dump(m, f, indent=1)
    print("checks:", len(checks), "not_applicable:", len(na))


if __name__ == "__main__":
    main()
