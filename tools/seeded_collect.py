#!/venv/bin/python
"""tools/seeded_collect.py <worktree> <seeded id> <property> "<what it needs to manifest>"
Independently confirms a sub-agent's change in fresh scratch copies of /repo
(never in /repo): demo passes without / fails with the patch (pure and compiled),
the pinned test suite passes with the patch (pure and compiled). Then stores
patch.diff, demo.py and meta.json under /verif/seeded/<id>/."""
import json, os, shutil, subprocess, sys, tempfile

VERIF = os.path.dirname(os.path.dirname(os.path.abspath(__file__)))
PY = "/venv/bin/python"


def pytest_line(d):
    """Summary line of the pinned suite; its wall-clock timing tests flake on a loaded machine, so a failing
    run is repeated (up to 3 runs) before it is believed."""
    out = ""
    for _ in range(3):
        rc, out = sh("%s -m pytest -q -p no:cacheprovider --timeout=900 asynq/tests --deselect asynq/tests/test_pyright.py 2>&1 | tail -1" % PY, d)
        if out.strip().startswith("104 passed"):
            break
    return rc, out


def sh(cmd, cwd, timeout=1200):
    p = subprocess.run(cmd, cwd=cwd, shell=True, stdout=subprocess.PIPE, stderr=subprocess.STDOUT, timeout=timeout)
    return p.returncode, p.stdout.decode("utf-8", "replace")


def main():
    if len(sys.argv) == 2:
        # re-check an already collected change against the current /repo tree
        sid = sys.argv[1]
        wt = os.path.join(VERIF, "seeded", sid)
        old = json.load(open(os.path.join(wt, "meta.json")))
        prop, needs = old["property"], old["needs_to_manifest"]
    else:
        wt, sid, prop, needs = sys.argv[1:5]
        old = None
    patch = os.path.join(wt, "patch.diff")
    demo = os.path.join(wt, "demo.py")
    assert os.path.exists(patch) and os.path.exists(demo), "missing patch.diff/demo.py"
    d = tempfile.mkdtemp(prefix="asynqseed.")
    log = {}
    try:
        subprocess.check_call(["rsync", "-a", "--exclude", ".git", "--exclude", "*.so", "--exclude", "*.c", "--exclude", "__pycache__", "--exclude", "build", "/repo/", d + "/"])
        shutil.copy(demo, os.path.join(d, "demo.py"))
        rc, out = sh("%s demo.py" % PY, d)
        log["demo_unpatched_pure"] = rc
        rc, out = sh("patch -p1 -s < %s" % patch, d)
        assert rc == 0, "patch does not apply to /repo's tree: " + out
        rc, out = sh("%s demo.py" % PY, d)
        log["demo_patched_pure"] = rc
        log["demo_patched_output_tail"] = out[-600:]
        rc, out = pytest_line(d)
        log["tests_patched_pure"] = out.strip()
        rc, out = sh('CFLAGS="-O1 -g0" %s setup.py -q build_ext --inplace -j16 2>&1 | tail -3' % PY, d)
        built = any(f.endswith(".so") for f in os.listdir(os.path.join(d, "asynq")))
        log["compiled_build_ok"] = built
        if built:
            rc, out = pytest_line(d)
            log["tests_patched_compiled"] = out.strip()
            rc, out = sh("%s demo.py" % PY, d)
            log["demo_patched_compiled"] = rc
    finally:
        shutil.rmtree(d, ignore_errors=True)
    ok = (
        log.get("demo_unpatched_pure") == 0
        and (log.get("demo_patched_pure") != 0 or log.get("demo_patched_compiled", 0) != 0)
        and log.get("tests_patched_pure", "").startswith("104 passed")
        and (not log.get("compiled_build_ok") or log.get("tests_patched_compiled", "").startswith("104 passed"))
    )
    print(json.dumps(log, indent=1))
    print("CONFIRMED" if ok else "NOT CONFIRMED")
    if not ok:
        sys.exit(1)
    dst = os.path.join(VERIF, "seeded", sid)
    os.makedirs(dst, exist_ok=True)
    if os.path.abspath(wt) != os.path.abspath(dst):
        shutil.copy(patch, os.path.join(dst, "patch.diff"))
        shutil.copy(demo, os.path.join(dst, "demo.py"))
    meta = {
        "property": prop,
        "source": "independent sub-agent given only the property text and a scratch worktree",
        "needs_to_manifest": needs,
        "confirmed_by": "tools/seeded_collect.py in a fresh scratch copy of /repo",
        "what_was_run": log,
        "caught_by": (old or {}).get("caught_by", []),
    }
    for k in ("note", "rebased"):
        if old and k in old:
            meta[k] = old[k]
    with open(os.path.join(dst, "meta.json"), "w") as f:
        json.dump(meta, f, indent=1)


if __name__ == "__main__":
    main()
